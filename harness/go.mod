module kv

go 1.21

require github.com/sboehler/knut v0.0.0

replace github.com/sboehler/knut => /repo
