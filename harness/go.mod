module kv

go 1.21

require (
	github.com/sboehler/knut v0.0.0
	github.com/shopspring/decimal v1.3.1
)

require (
	github.com/fatih/color v1.15.0 // indirect
	github.com/mattn/go-colorable v0.1.13 // indirect
	github.com/mattn/go-isatty v0.0.19 // indirect
	github.com/sourcegraph/conc v0.3.0 // indirect
	golang.org/x/exp v0.0.0-20230817173708-d852ddb80c63 // indirect
	golang.org/x/sync v0.3.0 // indirect
	golang.org/x/sys v0.11.0 // indirect
)

replace github.com/sboehler/knut => /repo
