package main

import (
	"fmt"
	"os"

	"kv/core"
	"kv/props"
)

var checks = map[string]func(*core.Ctx){
	"C11": props.C11,
	"C04": props.C04,
	"C01": props.C01,
	"C10": props.C10,
	"C12": props.C12,
	"C17": props.C17,
	"C18": props.C18,
	"C19": props.C19,
	"C06": props.C06,
	"C13": props.C13,
	"C20": props.C20,
	"C14": props.C14,
	"C15": props.C15,
	"C08": props.C08,
	"C07": props.C07,
	"C16": props.C16,
	"C09": props.C09,
	"C05": props.C05,
	"C02": props.C02,
	"C03": props.C03,
}

func main() {
	if len(os.Args) < 3 || os.Args[1] != "check" {
		fmt.Fprintln(os.Stderr, "usage: kv check <Cxx> [quick|thorough]")
		os.Exit(2)
	}
	prop := os.Args[2]
	tier := ""
	if len(os.Args) > 3 {
		tier = os.Args[3]
	}
	f, ok := checks[prop]
	if !ok {
		fmt.Fprintln(os.Stderr, "unknown property", prop)
		os.Exit(2)
	}
	c := core.NewCtx(prop, tier)
	f(c)
	os.Exit(c.Finish())
}
