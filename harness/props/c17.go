package props

import (
	"bytes"
	"encoding/csv"
	"fmt"
	"math/rand"
	"os"
	"path/filepath"
	"strings"
	"time"

	"kv/core"
	"kv/obs"

	"github.com/sboehler/knut/lib/common/table"
	"github.com/shopspring/decimal"
)

// digitsOf splits a canonical decimal string into sign, integer digits, fraction digits.
func digitsOf(s string) (sg int, ip, fp []any) {
	sg = 1
	if strings.HasPrefix(s, "-") {
		sg = -1
		s = s[1:]
	}
	is, fs := s, ""
	if k := strings.IndexByte(s, '.'); k >= 0 {
		is, fs = s[:k], s[k+1:]
	}
	ip, fp = []any{}, []any{}
	nz := false
	for _, ch := range is {
		ip = append(ip, int(ch-'0'))
		if ch != '0' {
			nz = true
		}
	}
	for _, ch := range fs {
		fp = append(fp, int(ch-'0'))
		if ch != '0' {
			nz = true
		}
	}
	if !nz {
		sg = 0
	}
	return
}

func tokens(cell string) ([]any, bool) {
	out := []any{}
	for _, ch := range cell {
		switch {
		case ch >= '0' && ch <= '9':
			out = append(out, int(ch-'0'))
		case ch == ',':
			out = append(out, 10)
		case ch == '.':
			out = append(out, 11)
		case ch == '-':
			out = append(out, 12)
		default:
			return out, false
		}
	}
	return out, true
}

// boundary-heavy amount generator
func genAmount(rng *rand.Rand) string {
	var s string
	switch rng.Intn(9) {
	case 7: // many decimals right at a rounding boundary (also after the division by 1000 of --thousands)
		s = []string{"499.", "4.", "0.", "1499.", "999499."}[rng.Intn(5)] + strings.Repeat("9", 13+rng.Intn(6)) + []string{"5", "49", "95", ""}[rng.Intn(4)]
	case 0: // x.5 boundaries
		s = fmt.Sprintf("%d.%s5", rng.Intn(2000), strings.Repeat("0", rng.Intn(3)))
	case 1: // 999.5 style carries
		s = strings.Repeat("9", 1+rng.Intn(9)) + "." + strings.Repeat("9", rng.Intn(4)) + []string{"5", "49", "4999", "95", "5000001"}[rng.Intn(5)]
	case 2: // just below half
		s = fmt.Sprintf("%d.%s4999999", rng.Intn(1000), strings.Repeat("0", rng.Intn(2)))
	case 3: // tiny
		s = "0." + strings.Repeat("0", rng.Intn(8)) + fmt.Sprint(1+rng.Intn(9))
	case 4: // huge
		s = fmt.Sprint(1+rng.Intn(9)) + randDigits(rng, 3+rng.Intn(13)) + "." + randDigits(rng, rng.Intn(9))
	case 5: // around thousands boundaries (for -k)
		s = fmt.Sprintf("%d", []int{499, 500, 501, 999, 1000, 1499, 1500, 999499, 999500, 999999, 1000000, 1234567}[rng.Intn(12)]) + []string{"", ".5", ".49", ".999"}[rng.Intn(4)]
	case 6:
		s = "0"
	default:
		s = fmt.Sprint(rng.Intn(100000)) + "." + randDigits(rng, rng.Intn(9))
	}
	s = strings.TrimSuffix(s, ".")
	if rng.Intn(2) == 0 && s != "0" {
		s = "-" + s
	}
	return s
}

func randDigits(rng *rand.Rand, n int) string {
	b := make([]byte, n)
	for i := range b {
		b[i] = byte('0' + rng.Intn(10))
	}
	return string(b)
}

var labelPool = []string{"Assets", "Überweisung", "日本語の口座", "Ж", "Expenses:Café", "a", "Liabilities:CreditCard:VeryLongAccountNameIndeed", "€uro"}

// libTable renders one table with the real renderers and records lines and cells.
func libTable(id int, rng *rand.Rand) map[string]any {
	rows, cols := 1+rng.Intn(6), 1+rng.Intn(4)
	digits := []int32{0, 1, 2, 4, 8}[rng.Intn(5)]
	k := rng.Intn(3) == 0
	tbl := table.New(1, cols)
	tbl.AddSeparatorRow()
	h := tbl.AddRow().AddText("Account", table.Center)
	for c := 0; c < cols; c++ {
		h.AddText(fmt.Sprintf("2020-0%d-01", c+1), table.Center)
	}
	tbl.AddSeparatorRow()
	amounts := make([][]string, rows)
	for r := 0; r < rows; r++ {
		row := tbl.AddRow().AddIndented(labelPool[rng.Intn(len(labelPool))], 2*rng.Intn(3))
		for c := 0; c < cols; c++ {
			a := genAmount(rng)
			amounts[r] = append(amounts[r], a)
			row.AddDecimal(decimal.RequireFromString(a))
		}
		if rng.Intn(3) == 0 {
			tbl.AddEmptyRow()
		}
	}
	tbl.AddSeparatorRow()
	var tb, cb bytes.Buffer
	(&table.TextRenderer{Color: false, Thousands: k, Round: digits}).Render(tbl, &tb)
	(&table.CSVRenderer{}).Render(tbl, &cb)
	cs := map[string]any{"id": id, "text": tb.String(), "digits": int(digits), "k": k}
	lines := []any{}
	var dataLines []string
	for _, ln := range strings.Split(strings.TrimRight(tb.String(), "\n"), "\n") {
		w, seps := obs.LineShape(ln)
		ss := []any{}
		for _, s := range seps {
			ss = append(ss, s)
		}
		lines = append(lines, map[string]any{"w": w, "seps": ss})
		if strings.HasPrefix(ln, "|") {
			dataLines = append(dataLines, ln)
		}
	}
	cs["lines"] = lines
	recs, _ := csv.NewReader(&cb).ReadAll()
	cells := []any{}
	bad := ""
	// data rows: skip header (first data line) and spacer rows
	di, ci := 1, 1
	for r := 0; r < rows; r++ {
		for di < len(dataLines) && strings.TrimSpace(strings.ReplaceAll(dataLines[di], "|", "")) == "" {
			di++
		}
		if di >= len(dataLines) || ci >= len(recs) {
			bad = "row count"
			break
		}
		parts := strings.Split(dataLines[di][1:len(dataLines[di])-1], "|")
		for c := 0; c < cols; c++ {
			sg, ip, fp := digitsOf(amounts[r][c])
			out, ok := tokens(strings.TrimSpace(parts[c+1]))
			csvt, ok2 := tokens(recs[ci][c+1])
			if !ok || !ok2 {
				bad = "unexpected character in cell " + parts[c+1] + " / " + recs[ci][c+1]
			}
			cells = append(cells, map[string]any{"sg": sg, "ip": ip, "fp": fp, "k": k, "digits": int(digits), "out": out, "csv": csvt, "amount": amounts[r][c]})
		}
		di++
		ci++
	}
	cs["cells"] = cells
	if bad != "" {
		cs["bad"] = bad
		cs["lines"] = []any{map[string]any{"w": 0, "seps": []any{}}, map[string]any{"w": 1, "seps": []any{}}} // unreadable = not rectangular
	}
	return cs
}

func C17(c *core.Ctx) {
	c.Ev.Level = "model_checking"
	c.Set("rule", "library tables (1-6 rows x 1-4 number columns, labels of 1-48 runes incl. multi-byte, --digits in {0,1,2,4,8}, --thousands on/off) with boundary-heavy amounts (x.5, 999.5-style carries, .4999999, 1e-8..1e16, thousands boundaries, zero, both signs) and `knut balance` text+CSV pairs; distinct by rendered text; non-trivial = a cell whose rounding changes a digit or inserts a separator")
	c.Trusted("TLC + Json module", "tokeniser of rendered cells (digits , . -)", "rune-width / separator-column reader")
	c.MC("MC_Table", c.TierCfg("MC_Table"), 16, 40*time.Minute)
	rng := rand.New(rand.NewSource(c.Seed))
	n := c.Pick(2500, 40000)
	cases := make([]map[string]any, 0, n)
	seen := map[string]bool{}
	nt := 0
	for i := 0; i < n; i++ {
		cs := libTable(i+1, rng)
		cases = append(cases, cs)
		t := cs["text"].(string)
		if !seen[t] {
			seen[t] = true
			if strings.ContainsAny(t, ",") || cs["digits"].(int) < 4 {
				nt++
			}
		}
	}
	c.Add("evaluations", n)
	c.Add("distinct_nontrivial", nt)
	c.Sample(map[string]any{"text": cases[0]["text"], "cells": cases[0]["cells"]})
	c.JudgeAndReport("Trace_Table", "Trace_Table.cfg", cases, 16, nil, func(cs map[string]any) (string, string) {
		return "table:" + fmt.Sprint(cs["why"]), fmt.Sprintf("table renderer (digits=%v thousands=%v): %v\n%v\ncells: %v", cs["digits"], cs["k"], cs["why"], cs["text"], cs["cells"])
	})
	c17cli(c, rng)
}

// c17cli: amounts placed into journals so that they appear as cells of the real
// `knut balance --color=false` and `--csv`; same positions must carry the same number.
func c17cli(c *core.Ctx, rng *rand.Rand) {
	knut := c.Knut("")
	dir := filepath.Join(c.Work, "c17")
	os.MkdirAll(dir, 0o755)
	n := c.Pick(60, 600)
	cases := make([]map[string]any, n)
	build := func(i int) map[string]any {
		r := rand.New(rand.NewSource(c.Seed*1000003 + int64(i)))
		names := []string{"Assets:Bank", "Assets:Überweisung:Konto", "Assets:日本語", "Liabilities:Card", "Expenses:Café:Crème"}
		var b strings.Builder
		b.WriteString("2020-01-01 open Equity:Equity\n")
		for _, a := range names {
			fmt.Fprintf(&b, "2020-01-01 open %s\n", a)
		}
		b.WriteString("\n")
		for k, a := range names {
			amt := strings.TrimPrefix(genAmount(r), "-")
			if amt == "0" {
				amt = "0.5"
			}
			fmt.Fprintf(&b, "2020-01-0%d \"t\"\nEquity:Equity %s %s CHF\n\n", 2+k, a, amt)
			if (k+i)%2 == 0 { // a second and third commodity on the same account: rows that start with an empty label cell
				amt2 := strings.TrimPrefix(genAmount(r), "-")
				if amt2 == "0" {
					amt2 = "7"
				}
				fmt.Fprintf(&b, "2020-01-0%d \"u\"\nEquity:Equity %s %s USD\nEquity:Equity %s 1.25 AAPL\n\n", 2+k, a, amt2, a)
			}
		}
		file := filepath.Join(dir, fmt.Sprintf("t%d.knut", i))
		os.WriteFile(file, []byte(b.String()), 0o644)
		defer os.Remove(file)
		digits := []int{0, 1, 2, 4, 8}[r.Intn(5)]
		k := r.Intn(3) == 0
		args := []string{"balance", "--color=false", "-a", "--digits", fmt.Sprint(digits), "--days", "--from", "2020-01-02", "--to", "2020-01-07"}
		if k {
			args = append(args, "-k")
		}
		rt := core.Run(core.RunOpts{Timeout: 30 * time.Second}, knut, append(args, file)...)
		rc := core.Run(core.RunOpts{Timeout: 30 * time.Second}, knut, append(append([]string{}, args...), "--csv", file)...)
		cs := map[string]any{"id": 5000000 + i, "text": rt.Stdout, "csvtext": rc.Stdout, "digits": digits, "k": k, "argv": strings.Join(args, " "), "journal": b.String()}
		unreadable := func(why string) map[string]any {
			cs["bad"] = why
			cs["lines"] = []any{map[string]any{"w": 0, "seps": []any{}}, map[string]any{"w": 1, "seps": []any{}}}
			cs["cells"] = []any{}
			return cs
		}
		if rt.Exit != 0 || rc.Exit != 0 {
			return unreadable("knut failed: " + rt.Stderr + rc.Stderr)
		}
		lines := []any{}
		for _, ln := range strings.Split(strings.TrimRight(rt.Stdout, "\n"), "\n") {
			w, seps := obs.LineShape(ln)
			ss := []any{}
			for _, s := range seps {
				ss = append(ss, s)
			}
			lines = append(lines, map[string]any{"w": w, "seps": ss})
		}
		cs["lines"] = lines
		tt, err := obs.ParseBalanceText(rt.Stdout)
		if err != nil {
			return unreadable(err.Error())
		}
		recs, err := csv.NewReader(strings.NewReader(rc.Stdout)).ReadAll()
		if err != nil {
			return unreadable(err.Error())
		}
		// CSV rows in order: header, then every non-empty row; text rows in order likewise
		var csvRows [][]string
		for _, rec := range recs[1:] {
			numeric := false
			for _, f := range rec[2:] {
				if f != "" {
					numeric = true
				}
			}
			if numeric || rec[1] != "" {
				csvRows = append(csvRows, rec)
			}
		}
		var textRows []obs.Row
		for _, row := range tt.Rows {
			if row.Comm != "" {
				textRows = append(textRows, row)
			}
		}
		if len(csvRows) != len(textRows) {
			return unreadable(fmt.Sprintf("text has %d numeric rows, csv %d", len(textRows), len(csvRows)))
		}
		cells := []any{}
		for ri, row := range textRows {
			for ci, cell := range row.Cells {
				raw := csvRows[ri][2+ci]
				if raw == "" {
					raw = "0"
				}
				d, err := decimal.NewFromString(raw)
				if err != nil {
					return unreadable("csv cell " + raw)
				}
				sg, ip, fp := digitsOf(d.String())
				out, ok := tokens(cell)
				csvt, ok2 := tokens(raw)
				if !ok || !ok2 {
					return unreadable("cell " + cell)
				}
				cells = append(cells, map[string]any{"sg": sg, "ip": ip, "fp": fp, "k": k, "digits": digits, "out": out, "csv": csvt, "amount": raw})
			}
		}
		cs["cells"] = cells
		return cs
	}
	core.Parallel(n, func(i int) { cases[i] = build(i) })
	c.Add("evaluations", n)
	c.Add("cli_tables", n)
	c.Sample(map[string]any{"argv": cases[0]["argv"], "text": cases[0]["text"], "csv": cases[0]["csvtext"]})
	c.JudgeAndReport("Trace_Table", "Trace_Table.cfg", cases, 8,
		func(old map[string]any) map[string]any { return build(old["id"].(int) - 5000000) },
		func(cs map[string]any) (string, string) {
			return "table-cli:" + fmt.Sprint(cs["why"]), fmt.Sprintf("knut %v: %v %v\n%v\n%v\njournal:\n%v", cs["argv"], cs["why"], cs["bad"], cs["text"], cs["csvtext"], cs["journal"])
		})
}
