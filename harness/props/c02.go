package props

import (
	"fmt"
	"math/rand"
	"os"
	"path/filepath"
	"strings"
	"time"

	"kv/core"
	"kv/kj"
)

// C02: the unvalued report equals an independent ledger computation, under filters,
// mappings (level 0/1/2, suffix 0/1, first-match-wins), remap, diff and closing.
func C02(c *core.Ctx) {
	c.Set("rule", "random accepted journals (accruals, zero/negative amounts, nested accounts) x random window/interval/last/diff/close x --account/--commodity regex filters x -m level[:suffix],regex rules x --remap; unvalued; distinct by (journal, argv) hash; non-trivial = >= 3 data rows and >= 1 non-zero cell")
	c.Trusted("TLC + Json module", "kj renderer", "text-table reader + decimal->scaled-integer normaliser", "Go regexp (regex flags are turned into match sets over the account-name closure by the harness)")
	for _, fam := range []string{"unvalued", "close", "mapping"} {
		c.MC("MC_Ledger", c.TierCfg("MC_Ledger_"+fam), 16, 60*time.Minute)
	}
	rng := rand.New(rand.NewSource(c.Seed))
	var bcs []balCase
	n := c.Pick(300, 4000)
	for i := 0; i < n; i++ {
		j := kj.Random(rng, kj.GenOpts{Accruals: true, MaxDirs: 14}, 18262+rng.Intn(60))
		for k := 0; k < 2; k++ {
			bcs = append(bcs, balCase{J: j, F: randomFlags(rng, j, flagOpts{Filters: true, Mapping: true})})
		}
	}
	runBalance(c, "C02", bcs, 1, func(cs map[string]any) bool {
		rows := rowsOf(cs)
		if len(rows) < 3 {
			return false
		}
		for _, r := range rows {
			for _, x := range r.(map[string]any)["x"].([]any) {
				if x.(int) != 0 {
					return true
				}
			}
		}
		return false
	})
	ledgerGen(c, "mapping", c.Pick(1500, 60000))
	ledgerGen(c, "close", c.Pick(500, 20000))
}

// C03: valued balances are mark-to-market at the latest known price (exact regime).
func C03(c *core.Ctx) {
	c.Set("rule", "random accepted journals with integer quantities and price histories whose reciprocals and two-hop chain products terminate within 4 decimals (USD<->CHF direct or inverse, AAPL via USD or CHF, sparse price days), valued in CHF or USD, random window/interval/last/diff/close; some journals lack a needed price (expected: failure, empty stdout); distinct by (journal, argv); non-trivial = report succeeded and shows >= 1 position in a commodity other than V")
	c.Trusted("TLC + Json module", "kj renderer", "text-table reader + decimal->scaled-integer normaliser (scale 10^4; cells outside the regime are flagged, not judged)")
	c.MC("MC_Ledger", c.TierCfg("MC_Ledger_valued"), 16, 60*time.Minute)
	rng := rand.New(rand.NewSource(c.Seed))
	var bcs []balCase
	n := c.Pick(300, 4000)
	for i := 0; i < n; i++ {
		j := kj.Random(rng, kj.GenOpts{Valued: true, MaxDirs: 12, DensePrices: i%3 == 0, AltQuotes: i%4 == 1}, 18262+rng.Intn(60))
		if rng.Intn(6) == 0 {
			// drop the initial price declarations: some needed price is now missing
			var ds []kj.Dir
			for _, d := range j.Dirs {
				if d.K == "price" && rng.Intn(2) == 0 {
					continue
				}
				ds = append(ds, d)
			}
			j.Dirs = ds
		}
		for k := 0; k < 2; k++ {
			f := randomFlags(rng, j, flagOpts{Valued: true, Mapping: k == 1 && i%2 == 0})
			bcs = append(bcs, balCase{J: j, F: f})
		}
	}
	runBalance(c, "C03", bcs, 1, func(cs map[string]any) bool {
		for _, d := range cs["journal"].([]any) {
			m := d.(map[string]any)
			if m["k"] == "trx" {
				for _, b := range m["bk"].([]any) {
					if b.(map[string]any)["c"] != cs["V"] && len(rowsOf(cs)) > 0 {
						return true
					}
				}
			}
		}
		return false
	})
	ledgerGen(c, "valued", c.Pick(1500, 60000))
	c03stages(c, rng)
	c03free(c, rng)
}

// c03stages validates the valuation stage on the real execution: the verif hook records each
// day's transactions after every pipeline stage; TLC compares the valuation stage's and the
// last pre-query stage's output with the model's stage operators (exact regime).
func c03stages(c *core.Ctx, rng *rand.Rand) {
	bin := c.Knut("verif")
	dir := filepath.Join(c.Work, "c03stages")
	os.MkdirAll(dir, 0o755)
	n := c.Pick(150, 2500)
	type job struct {
		j *kj.Journal
		f *kj.Flags
	}
	jobs := make([]job, n)
	for i := range jobs {
		j := kj.Random(rng, kj.GenOpts{Valued: true, MaxDirs: 10, DensePrices: i%2 == 0, AltQuotes: i%3 == 0}, 18262+rng.Intn(60))
		jobs[i] = job{j, randomFlags(rng, j, flagOpts{Valued: true})}
	}
	scaledOf := func(s string, scale int) (int, bool) { return scaled(s, scale) }
	run := func(i int) map[string]any {
		d := filepath.Join(dir, fmt.Sprintf("s%d", i))
		os.RemoveAll(d)
		os.MkdirAll(d, 0o755)
		defer os.RemoveAll(d)
		cs := jobs[i].j.Case(4000000+i, "stagesExact", jobs[i].f)
		text := jobs[i].j.Render()
		os.WriteFile(filepath.Join(d, "j.knut"), []byte(text), 0o644)
		trace := filepath.Join(d, "trace.ndjson")
		args := append(append([]string{"balance", "--color=false"}, jobs[i].f.Args()...), "j.knut")
		r := core.Run(core.RunOpts{Dir: d, Timeout: 60 * time.Second, Env: []string{"VERIF_TRACE=" + trace, fmt.Sprintf("VERIF_SCHED_SEED=%d", i)}}, bin, args...)
		evs, _ := readHookTrace(trace)
		events := []any{}
		of := 0
		bad := false
		for _, e := range evs {
			if e.Ev != "StageDay" {
				continue
			}
			of = e.Of
			z, _ := parseYMD(e.Day)
			trx := []any{}
			for _, t := range e.Trx {
				ps := []any{}
				for _, p := range t {
					m := p.(map[string]any)
					q, ok1 := scaledOf(fmt.Sprint(m["q"]), 1)
					v, ok2 := scaledOf(fmt.Sprint(m["v"]), kj.PS)
					if !ok1 || !ok2 {
						bad = true
					}
					ps = append(ps, map[string]any{"a": m["a"], "c": m["c"], "q": q, "v": v})
				}
				trx = append(trx, ps)
			}
			events = append(events, map[string]any{"stage": e.Stage, "z": z, "trx": trx})
		}
		// balance -v: check, prices, valuate, filter, [close], query
		cs["sValuate"], cs["sFinal"] = 3, of-1
		if r.Exit != 0 || bad {
			events = []any{} // a failing run (missing price) or numbers outside the regime: nothing to compare
		}
		cs["events"] = events
		cs["argv"], cs["text"], cs["stderr"] = strings.Join(args, " "), text, r.Stderr
		return cs
	}
	cases := make([]map[string]any, n)
	core.Parallel(n, func(i int) { cases[i] = run(i) })
	nev := 0
	for _, cs := range cases {
		nev += len(cs["events"].([]any))
	}
	c.Add("evaluations", n)
	c.Add("stage_day_events_validated", nev)
	c.JudgeAndReport("Trace_Ledger", "Trace_Ledger.cfg", cases, 16,
		func(old map[string]any) map[string]any { return run(old["id"].(int) - 4000000) },
		func(cs map[string]any) (string, string) {
			return "C03:stages-" + fmt.Sprint(cs["why"]), fmt.Sprintf("knut %v (verif hook trace): %v\n--- journal\n%v\n%v", cs["argv"], cs["why"], cs["text"], cs["stderr"])
		})
}
