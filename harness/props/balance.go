package props

import (
	"encoding/json"
	"fmt"
	"math/rand"
	"os"
	"path/filepath"
	"strings"
	"time"

	"kv/core"
	"kv/kj"
	"kv/obs"
)

// scaled parses a rendered decimal ("-1,234.5000") into an integer at `scale`.
func scaled(cell string, scale int) (int, bool) {
	s := obs.Num(cell)
	if s == "" {
		return 0, true
	}
	neg := strings.HasPrefix(s, "-")
	s = strings.TrimPrefix(s, "-")
	ip, fp := s, ""
	if i := strings.IndexByte(s, '.'); i >= 0 {
		ip, fp = s[:i], s[i+1:]
	}
	digits := len(fmt.Sprint(scale)) - 1
	for len(fp) < digits {
		fp += "0"
	}
	if strings.Trim(fp[digits:], "0") != "" {
		return 0, false
	}
	fp = fp[:digits]
	v := 0
	for _, ch := range ip + fp {
		if ch < '0' || ch > '9' {
			return 0, false
		}
		v = v*10 + int(ch-'0')
		if v > 2000000000 {
			return 0, false
		}
	}
	if neg {
		v = -v
	}
	return v, true
}

type balCase struct {
	J *kj.Journal
	F *kj.Flags
}

// observeBalance runs the real `knut balance` and records what it printed.
func observeBalance(knut, dir string, id int, bc balCase, cs map[string]any) {
	file := filepath.Join(dir, fmt.Sprintf("b%d.knut", id))
	text := bc.J.Render()
	os.WriteFile(file, []byte(text), 0o644)
	defer os.Remove(file)
	args := append([]string{"balance", "--color=false", "--digits", "4"}, bc.F.Args()...)
	args = append(args, file)
	r := core.Run(core.RunOpts{Timeout: 60 * time.Second}, knut, args...)
	o := map[string]any{"exit": r.Exit, "empty": r.Stdout == "", "cols": []any{}, "rows": []any{}, "bad": false}
	cs["argv"] = strings.Join(args[:len(args)-1], " ")
	cs["text"] = text
	cs["stdout"] = r.Stdout
	if r.Exit != 0 {
		o["stderr"] = r.Stderr
	}
	if r.TimedOut || strings.Contains(r.Stderr, "panic:") || strings.Contains(r.Stderr, "goroutine ") {
		o["exit"] = -9
		o["stderr"] = r.Stderr
	}
	if r.Exit == 0 {
		t, err := obs.ParseBalanceText(r.Stdout)
		if err != nil {
			o["bad"] = true
			o["parse_error"] = err.Error()
		} else {
			scale := kj.PS
			if bc.F.V == "" {
				scale = bc.J.QS
			}
			cols := []any{}
			for _, h := range t.Cols {
				z, ok := parseYMD(h)
				if !ok {
					z = noColumn
				}
				cols = append(cols, z)
			}
			rows := []any{}
			for _, row := range t.Rows {
				xs := []any{}
				for _, cell := range row.Cells {
					v, ok := scaled(cell, scale)
					if !ok {
						o["bad"] = true
						o["parse_error"] = "cell out of regime: " + cell
					}
					xs = append(xs, v)
				}
				rows = append(rows, map[string]any{"sec": row.Section, "a": strings.Join(row.Path, ":"), "c": row.Comm, "x": xs})
			}
			o["cols"], o["rows"] = cols, rows
		}
	}
	cs["obs"] = o
}

// journalSpan returns the min/max day over all directives (generator-side only).
func journalSpan(j *kj.Journal) (int, int) {
	lo, hi := 1<<30, -(1 << 30)
	for _, d := range j.Dirs {
		if d.Z < lo {
			lo = d.Z
		}
		if d.Z > hi {
			hi = d.Z
		}
		if d.Acc.On && d.Acc.E > hi {
			hi = d.Acc.E
		}
	}
	return lo, hi
}

type flagOpts struct {
	Valued  bool
	Filters bool
	Mapping bool
	NoHide  bool // mapping rules of level >= 1 only (nothing is hidden: the Delta row must stay zero)
}

func randomFlags(rng *rand.Rand, j *kj.Journal, o flagOpts) *kj.Flags {
	lo, hi := journalSpan(j)
	f := &kj.Flags{From: lo - 5, To: hi + 5, Iv: "once", Close: rng.Intn(2) == 0, Diff: rng.Intn(3) == 0}
	if rng.Intn(2) == 0 {
		f.From = lo + rng.Intn(hi-lo+1)
	}
	if rng.Intn(2) == 0 {
		f.To = f.From + rng.Intn(hi-f.From+6)
	}
	f.Iv = ivNames[rng.Intn(6)]
	if f.Iv == "daily" && f.To-f.From > 45 {
		f.Iv = "weekly"
	}
	if rng.Intn(3) == 0 {
		f.Last = 1 + rng.Intn(3)
	}
	if o.Valued {
		f.V = []string{"CHF", "USD"}[rng.Intn(2)]
		if rng.Intn(4) == 0 {
			f.ShowRx = []string{".", "^Assets", "Portfolio|Card"}[rng.Intn(3)]
		}
	}
	if o.Filters && rng.Intn(2) == 0 {
		f.AcctRx = []string{"^Assets", "Bank|Rent", "^(Income|Expenses)", "Food", "Checking$", "Equity", "^E", "Equity:Equity$"}[rng.Intn(8)]
	}
	if o.Filters && rng.Intn(3) == 0 {
		f.CommRx = []string{"CHF", "USD|AAPL", "^A"}[rng.Intn(3)]
	}
	if o.Mapping && rng.Intn(2) == 0 {
		n := 1 + rng.Intn(2)
		for k := 0; k < n; k++ {
			r := kj.Rule{Level: rng.Intn(3), Suffix: rng.Intn(4), Regex: []string{"", "^Assets", "^Expenses:Food", "Bank", "^Income", "^Expenses", "Trips|Main"}[rng.Intn(7)]}
			if r.Level == 0 && o.NoHide {
				r.Level = 1 + rng.Intn(2)
			}
			if r.Level == 0 && rng.Intn(2) == 0 {
				r.Suffix = 0 // (otherwise `-m 0:2,rx`: level 0 hides, whatever the suffix)
			}
			f.Map = append(f.Map, r)
		}
	}
	if o.Mapping && rng.Intn(4) == 0 {
		f.RemapRx = []string{"^Liabilities", "^Assets:Bank", "Rent", "^Income", "Equity", ".", "y$"}[rng.Intn(7)]
	}
	return f
}

func sigBalance(prefix string) func(cs map[string]any) (string, string) {
	return func(cs map[string]any) (string, string) {
		o := cs["obs"].(map[string]any)
		what := fmt.Sprintf("knut %v\nexit=%v\n--- stdout\n%v--- stderr\n%v\n--- journal\n%v", cs["argv"], o["exit"], cs["stdout"], o["stderr"], cs["text"])
		sig := prefix + ":" + fmt.Sprint(cs["why"])
		if o["exit"] == -9 {
			sig = prefix + ":panic-or-hang"
		} else if o["exit"] != 0 {
			sig = prefix + ":unexpected-failure"
		}
		if o["bad"] == true {
			sig = prefix + ":unreadable-output"
		}
		return sig, what
	}
}

// runBalance observes and judges a batch of balance cases.
func runBalance(c *core.Ctx, name string, bcs []balCase, firstID int, nontrivial func(cs map[string]any) bool) {
	knut := c.Knut("")
	dir := filepath.Join(c.Work, name)
	os.MkdirAll(dir, 0o755)
	cases := make([]map[string]any, len(bcs))
	for i := range bcs {
		cases[i] = bcs[i].J.Case(firstID+i, "balance", bcs[i].F)
	}
	core.Parallel(len(bcs), func(i int) { observeBalance(knut, dir, firstID+i, bcs[i], cases[i]) })
	seen := map[string]bool{}
	nt, failedRuns := 0, 0
	for _, cs := range cases {
		h := core.Sha(cs["text"].(string) + cs["argv"].(string))
		o := cs["obs"].(map[string]any)
		if o["exit"] != 0 {
			failedRuns++
		}
		if !seen[h] && nontrivial(cs) {
			nt++
		}
		seen[h] = true
	}
	c.Add("evaluations", len(cases))
	c.Add("distinct_nontrivial", nt)
	c.Add("runs_exit_nonzero", failedRuns)
	for _, cs := range cases {
		if nontrivial(cs) {
			c.Sample(map[string]any{"argv": cs["argv"], "journal": cs["text"], "stdout": cs["stdout"]})
			break
		}
	}
	rerun := func(old map[string]any) map[string]any {
		i := old["id"].(int) - firstID
		observeBalance(knut, dir, old["id"].(int), bcs[i], old)
		return old
	}
	// the transported text copies are for humans; TLC does not need them
	c.JudgeAndReport("Trace_Ledger", "Trace_Ledger.cfg", cases, 16, rerun, sigBalance(name))
}

func rowsOf(cs map[string]any) []any {
	o := cs["obs"].(map[string]any)
	r, _ := o["rows"].([]any)
	return r
}

// ---------------------------------------------------------------- (G) TLC-generated journals x flags

type genLedgerCase struct {
	Journal []struct {
		K  string `json:"k"`
		Z  int    `json:"z"`
		C  string `json:"c"`
		P  int    `json:"p"`
		T  string `json:"t"`
		Bk []struct {
			Cr string `json:"cr"`
			Dr string `json:"dr"`
			C  string `json:"c"`
			Q  int    `json:"q"`
		} `json:"bk"`
	} `json:"journal"`
	Flags struct {
		From    int      `json:"from"`
		To      int      `json:"to"`
		Iv      string   `json:"iv"`
		Last    int      `json:"last"`
		Diff    bool     `json:"diff"`
		Close   bool     `json:"close"`
		AcctAll bool     `json:"acctAll"`
		Accts   []string `json:"accts"`
		Map     []struct {
			Level  int      `json:"level"`
			Suffix int      `json:"suffix"`
			All    bool     `json:"all"`
			Match  []string `json:"match"`
		} `json:"map"`
		Remap []string `json:"remap"`
	} `json:"flags"`
	V string `json:"v"`
}

func alternation(names []string) string {
	if len(names) == 0 {
		return "^$x" // matches nothing
	}
	return "^(" + strings.Join(names, "|") + ")$"
}

// ledgerGen replays the (journal, flags) states of the MC_Ledger scope through the real CLI;
// TLC judges the observed reports like any other balance case.
func ledgerGen(c *core.Ctx, family string, sample int) {
	r := c.TLC(core.TLCOpts{Spec: "MC_Ledger", Cfg: "MC_Ledger_" + family + "_gen.cfg", Workers: 8, Timeout: 30 * time.Minute, Heap: "10g"})
	if !r.OK {
		c.Infra("MC_Ledger_%s_gen failed: %s", family, r.ErrorText)
		return
	}
	var lines []string
	for _, ln := range r.Printed {
		u := core.Unquote(ln)
		if strings.HasPrefix(u, "CASE ") {
			lines = append(lines, u[5:])
		}
	}
	total := len(lines)
	if sample > 0 && len(lines) > sample {
		rg := rand.New(rand.NewSource(c.Seed + 99))
		rg.Shuffle(len(lines), func(a, b int) { lines[a], lines[b] = lines[b], lines[a] })
		lines = lines[:sample]
	}
	var bcs []balCase
	for _, ln := range lines {
		var g genLedgerCase
		if err := json.Unmarshal([]byte(ln), &g); err != nil {
			c.Infra("bad generated ledger case: %v", err)
			return
		}
		j := &kj.Journal{QS: 1}
		for _, a := range []string{"Assets:A:B", "Liabilities:L", "Equity:Equity", "Expenses:X", "Income:I"} {
			j.Dirs = append(j.Dirs, kj.Dir{K: "open", Z: 18258, A: a})
		}
		for _, d := range g.Journal {
			switch d.K {
			case "price":
				j.Dirs = append(j.Dirs, kj.Dir{K: "price", Z: d.Z, C: d.C, P: d.P, T: d.T})
			case "trx":
				x := kj.Dir{K: "trx", Z: d.Z, Desc: "g"}
				for _, b := range d.Bk {
					x.Bk = append(x.Bk, kj.Booking{Cr: b.Cr, Dr: b.Dr, C: b.C, Q: b.Q})
				}
				j.Dirs = append(j.Dirs, x)
			}
		}
		f := &kj.Flags{From: g.Flags.From, To: g.Flags.To, Iv: g.Flags.Iv, Last: g.Flags.Last, Diff: g.Flags.Diff, Close: g.Flags.Close, V: g.V}
		if !g.Flags.AcctAll {
			f.AcctRx = alternation(g.Flags.Accts)
		}
		for _, m := range g.Flags.Map {
			rule := kj.Rule{Level: m.Level, Suffix: m.Suffix}
			if !m.All {
				rule.Regex = alternation(m.Match)
			}
			f.Map = append(f.Map, rule)
		}
		if len(g.Flags.Remap) > 0 {
			f.RemapRx = alternation(g.Flags.Remap)
		}
		bcs = append(bcs, balCase{J: j, F: f})
	}
	c.Add("generated_behaviours_replayed", len(bcs))
	c.Set("generated_scope_"+family, fmt.Sprintf("%d of %d (journal, flags) states of MC_Ledger_%s_gen", len(bcs), total, family))
	runBalance(c, c.Prop+"gen"+family, bcs, 5000000+len(family)*1000000, func(cs map[string]any) bool { return len(rowsOf(cs)) >= 3 })
}
