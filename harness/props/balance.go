package props

import (
	"fmt"
	"math/rand"
	"os"
	"path/filepath"
	"strings"
	"time"

	"kv/core"
	"kv/kj"
	"kv/obs"
)

// scaled parses a rendered decimal ("-1,234.5000") into an integer at `scale`.
func scaled(cell string, scale int) (int, bool) {
	s := obs.Num(cell)
	if s == "" {
		return 0, true
	}
	neg := strings.HasPrefix(s, "-")
	s = strings.TrimPrefix(s, "-")
	ip, fp := s, ""
	if i := strings.IndexByte(s, '.'); i >= 0 {
		ip, fp = s[:i], s[i+1:]
	}
	digits := len(fmt.Sprint(scale)) - 1
	for len(fp) < digits {
		fp += "0"
	}
	if strings.Trim(fp[digits:], "0") != "" {
		return 0, false
	}
	fp = fp[:digits]
	v := 0
	for _, ch := range ip + fp {
		if ch < '0' || ch > '9' {
			return 0, false
		}
		v = v*10 + int(ch-'0')
		if v > 2000000000 {
			return 0, false
		}
	}
	if neg {
		v = -v
	}
	return v, true
}

type balCase struct {
	J *kj.Journal
	F *kj.Flags
}

// observeBalance runs the real `knut balance` and records what it printed.
func observeBalance(knut, dir string, id int, bc balCase, cs map[string]any) {
	file := filepath.Join(dir, fmt.Sprintf("b%d.knut", id))
	text := bc.J.Render()
	os.WriteFile(file, []byte(text), 0o644)
	defer os.Remove(file)
	args := append([]string{"balance", "--color=false", "--digits", "4"}, bc.F.Args()...)
	args = append(args, file)
	r := core.Run(core.RunOpts{Timeout: 60 * time.Second}, knut, args...)
	o := map[string]any{"exit": r.Exit, "empty": r.Stdout == "", "cols": []any{}, "rows": []any{}, "bad": false}
	cs["argv"] = strings.Join(args[:len(args)-1], " ")
	cs["text"] = text
	cs["stdout"] = r.Stdout
	if r.Exit != 0 {
		o["stderr"] = r.Stderr
	}
	if r.TimedOut || strings.Contains(r.Stderr, "panic:") || strings.Contains(r.Stderr, "goroutine ") {
		o["exit"] = -9
		o["stderr"] = r.Stderr
	}
	if r.Exit == 0 {
		t, err := obs.ParseBalanceText(r.Stdout)
		if err != nil {
			o["bad"] = true
			o["parse_error"] = err.Error()
		} else {
			scale := kj.PS
			if bc.F.V == "" {
				scale = bc.J.QS
			}
			cols := []any{}
			for _, h := range t.Cols {
				z, ok := parseYMD(h)
				if !ok {
					z = noColumn
				}
				cols = append(cols, z)
			}
			rows := []any{}
			for _, row := range t.Rows {
				xs := []any{}
				for _, cell := range row.Cells {
					v, ok := scaled(cell, scale)
					if !ok {
						o["bad"] = true
						o["parse_error"] = "cell out of regime: " + cell
					}
					xs = append(xs, v)
				}
				rows = append(rows, map[string]any{"sec": row.Section, "a": strings.Join(row.Path, ":"), "c": row.Comm, "x": xs})
			}
			o["cols"], o["rows"] = cols, rows
		}
	}
	cs["obs"] = o
}

// journalSpan returns the min/max day over all directives (generator-side only).
func journalSpan(j *kj.Journal) (int, int) {
	lo, hi := 1<<30, -(1 << 30)
	for _, d := range j.Dirs {
		if d.Z < lo {
			lo = d.Z
		}
		if d.Z > hi {
			hi = d.Z
		}
		if d.Acc.On && d.Acc.E > hi {
			hi = d.Acc.E
		}
	}
	return lo, hi
}

type flagOpts struct {
	Valued  bool
	Filters bool
	Mapping bool
}

func randomFlags(rng *rand.Rand, j *kj.Journal, o flagOpts) *kj.Flags {
	lo, hi := journalSpan(j)
	f := &kj.Flags{From: lo - 5, To: hi + 5, Iv: "once", Close: rng.Intn(2) == 0, Diff: rng.Intn(3) == 0}
	if rng.Intn(2) == 0 {
		f.From = lo + rng.Intn(hi-lo+1)
	}
	if rng.Intn(2) == 0 {
		f.To = f.From + rng.Intn(hi-f.From+6)
	}
	f.Iv = ivNames[rng.Intn(6)]
	if f.Iv == "daily" && f.To-f.From > 45 {
		f.Iv = "weekly"
	}
	if rng.Intn(3) == 0 {
		f.Last = 1 + rng.Intn(3)
	}
	if o.Valued {
		f.V = []string{"CHF", "USD"}[rng.Intn(2)]
	}
	if o.Filters && rng.Intn(2) == 0 {
		f.AcctRx = []string{"^Assets", "Bank|Rent", "^(Income|Expenses)", "Food", "Checking$"}[rng.Intn(5)]
	}
	if o.Filters && rng.Intn(3) == 0 {
		f.CommRx = []string{"CHF", "USD|AAPL", "^A"}[rng.Intn(3)]
	}
	if o.Mapping && rng.Intn(2) == 0 {
		n := 1 + rng.Intn(2)
		for k := 0; k < n; k++ {
			r := kj.Rule{Level: rng.Intn(3), Suffix: rng.Intn(2), Regex: []string{"", "^Assets", "^Expenses:Food", "Bank", "^Income"}[rng.Intn(5)]}
			if r.Level == 0 {
				r.Suffix = 0
			}
			f.Map = append(f.Map, r)
		}
	}
	if o.Mapping && rng.Intn(4) == 0 {
		f.RemapRx = []string{"^Liabilities", "^Assets:Bank", "Rent", "^Income"}[rng.Intn(4)]
	}
	return f
}

func sigBalance(prefix string) func(cs map[string]any) (string, string) {
	return func(cs map[string]any) (string, string) {
		o := cs["obs"].(map[string]any)
		what := fmt.Sprintf("knut %v\nexit=%v\n--- stdout\n%v--- stderr\n%v\n--- journal\n%v", cs["argv"], o["exit"], cs["stdout"], o["stderr"], cs["text"])
		sig := prefix + ":" + fmt.Sprint(cs["why"])
		if o["exit"] == -9 {
			sig = prefix + ":panic-or-hang"
		} else if o["exit"] != 0 {
			sig = prefix + ":unexpected-failure"
		}
		if o["bad"] == true {
			sig = prefix + ":unreadable-output"
		}
		return sig, what
	}
}

// runBalance observes and judges a batch of balance cases.
func runBalance(c *core.Ctx, name string, bcs []balCase, firstID int, nontrivial func(cs map[string]any) bool) {
	knut := c.Knut("")
	dir := filepath.Join(c.Work, name)
	os.MkdirAll(dir, 0o755)
	cases := make([]map[string]any, len(bcs))
	for i := range bcs {
		cases[i] = bcs[i].J.Case(firstID+i, "balance", bcs[i].F)
	}
	core.Parallel(len(bcs), func(i int) { observeBalance(knut, dir, firstID+i, bcs[i], cases[i]) })
	seen := map[string]bool{}
	nt, failedRuns := 0, 0
	for _, cs := range cases {
		h := core.Sha(cs["text"].(string) + cs["argv"].(string))
		o := cs["obs"].(map[string]any)
		if o["exit"] != 0 {
			failedRuns++
		}
		if !seen[h] && nontrivial(cs) {
			nt++
		}
		seen[h] = true
	}
	c.Add("evaluations", len(cases))
	c.Add("distinct_nontrivial", nt)
	c.Add("runs_exit_nonzero", failedRuns)
	for _, cs := range cases {
		if nontrivial(cs) {
			c.Sample(map[string]any{"argv": cs["argv"], "journal": cs["text"], "stdout": cs["stdout"]})
			break
		}
	}
	rerun := func(old map[string]any) map[string]any {
		i := old["id"].(int) - firstID
		observeBalance(knut, dir, old["id"].(int), bcs[i], old)
		return old
	}
	// the transported text copies are for humans; TLC does not need them
	c.JudgeAndReport("Trace_Ledger", "Trace_Ledger.cfg", cases, 16, rerun, sigBalance(name))
}

func rowsOf(cs map[string]any) []any {
	o := cs["obs"].(map[string]any)
	r, _ := o["rows"].([]any)
	return r
}
