package props

import (
	"fmt"
	"math/rand"
	"regexp"
	"strconv"
	"strings"
	"time"

	"kv/core"
	"kv/kj"

	"github.com/sboehler/knut/lib/model/registry"
	"github.com/sboehler/knut/lib/model/transaction"
	"github.com/sboehler/knut/lib/syntax/directives"
	"github.com/sboehler/knut/lib/syntax/parser"
	"github.com/shopspring/decimal"
)

var reAccrualSuffix = regexp.MustCompile(` \(accrual (\d+)/(\d+)\)$`)

type accCase struct {
	QS  int
	Dir kj.Dir
}

// observeAccrual pushes one annotated transaction through the real parser and
// transaction.Create and records the generated transactions.
func observeAccrual(id int, ac accCase) map[string]any {
	j := &kj.Journal{QS: ac.QS, Dirs: []kj.Dir{ac.Dir}}
	text := j.RenderDir(ac.Dir)
	cs := j.Case(id, "accrual", nil)
	d := cs["journal"].([]any)[0].(map[string]any)
	out := map[string]any{"id": id, "qs": ac.QS, "ty": cs["ty"], "z": ac.Dir.Z, "bk": d["bk"], "acc": d["acc"], "text": text, "err": false, "obs": []any{}}
	func() {
		defer func() {
			if r := recover(); r != nil {
				out["err"], out["msg"] = true, fmt.Sprint("panic: ", r)
			}
		}()
		p := parser.New(text, "mem.knut")
		if err := p.Advance(); err != nil {
			out["err"], out["msg"] = true, err.Error()
			return
		}
		f, err := p.ParseFile()
		if err != nil || len(f.Directives) != 1 {
			out["err"], out["msg"] = true, fmt.Sprint("parse: ", err)
			return
		}
		st, ok := f.Directives[0].Directive.(directives.Transaction)
		if !ok {
			out["err"], out["msg"] = true, "not a transaction"
			return
		}
		ts, err := transaction.Create(registry.New(), &st)
		if err != nil {
			out["err"], out["msg"] = true, err.Error()
			return
		}
		obs := []any{}
		scale := decimal.New(int64(ac.QS), 0)
		for _, t := range ts {
			part, of := 0, 0
			if m := reAccrualSuffix.FindStringSubmatch(t.Description); m != nil {
				part, _ = strconv.Atoi(m[1])
				of, _ = strconv.Atoi(m[2])
			}
			posts := []any{}
			for _, p := range t.Postings {
				q := p.Quantity.Mul(scale)
				if !q.Equal(q.Truncate(0)) || q.Abs().GreaterThan(decimal.New(2000000000, 0)) {
					out["err"], out["msg"] = true, "quantity outside the scale: "+p.Quantity.String()
				}
				posts = append(posts, map[string]any{"a": p.Account.Name(), "o": p.Other.Name(), "c": p.Commodity.Name(), "q": int(q.IntPart()), "v": 0})
			}
			obs = append(obs, map[string]any{"z": timeToDay(t.Date), "part": part, "of": of, "post": posts})
		}
		out["obs"] = obs
	}()
	return out
}

func C10(c *core.Ctx) {
	c.Set("rule", "one annotated transaction per case: 1-4 bookings over all account types (incl. equity and the accrual account's type), positive/negative/zero amounts with 2 decimals (< 10^5) or 6 decimals (< 500), the 4 intervals the annotation syntax accepts, windows of 1 day to 3 years placed before/around/after the transaction date; distinct by text; non-trivial = >= 1 income/expense leg split over >= 2 periods")
	c.Trusted("TLC + Json module", "kj renderer", "decimal -> scaled-integer conversion of the generated postings")
	c.MC("MC_Accrual", c.TierCfg("MC_Accrual"), 16, 40*time.Minute)
	rng := rand.New(rand.NewSource(c.Seed))
	accts := []string{"Assets:A", "Assets:B:C", "Liabilities:L", "Equity:Equity", "Equity:Opening", "Income:I", "Income:J:K", "Expenses:X", "Expenses:Y:Z"}
	ivs := []string{"daily", "weekly", "monthly", "quarterly"} // the four the parser accepts (its tests pin that list; the README also names once and yearly)
	n := c.Pick(4000, 60000)
	acs := make([]accCase, n)
	for i := range acs {
		qs := 100
		if rng.Intn(4) == 0 {
			qs = 1000000
		}
		z := 18262 + rng.Intn(400)
		d := kj.Dir{K: "trx", Z: z, Desc: "rent & more"}
		for b := 1 + rng.Intn(4)*rng.Intn(2); b > 0; b-- {
			cr, dr := accts[rng.Intn(len(accts))], accts[rng.Intn(len(accts))]
			if cr == dr {
				dr = "Expenses:X"
				if cr == dr {
					cr = "Assets:A"
				}
			}
			var q int
			switch {
			case qs == 100:
				q = rng.Intn(10000000) - 2000000
				if rng.Intn(3) == 0 {
					q = q / 100 * 100
				}
			default:
				q = rng.Intn(500000000) - 100000000
			}
			if rng.Intn(12) == 0 {
				q = 0
			}
			d.Bk = append(d.Bk, kj.Booking{Cr: cr, Dr: dr, C: []string{"CHF", "USD"}[rng.Intn(2)], Q: q})
		}
		iv := ivs[rng.Intn(len(ivs))]
		var s, e int
		switch rng.Intn(4) {
		case 0: // before the transaction
			e = z - 1 - rng.Intn(100)
			s = e - rng.Intn(200)
		case 1: // after it
			s = z + 1 + rng.Intn(100)
			e = s + rng.Intn(200)
		case 2: // around
			s = z - rng.Intn(100)
			e = z + rng.Intn(100)
		default:
			s = z - 500 + rng.Intn(1000)
			e = s + rng.Intn(1100)
		}
		if rng.Intn(3) == 0 { // calendar boundaries: window ends snapped to the first / last / last-but-one day of a month
			snap := func(z int) int {
				t := dayToTime(z)
				first := timeToDay(time.Date(t.Year(), t.Month(), 1, 0, 0, 0, 0, time.UTC))
				last := timeToDay(time.Date(t.Year(), t.Month()+1, 0, 0, 0, 0, 0, time.UTC))
				return []int{first, last, last - 1, first + 1}[rng.Intn(4)]
			}
			s, e = snap(s), snap(e)
			if e < s {
				s, e = e, s
			}
		}
		if iv == "daily" && e-s > 120 {
			e = s + rng.Intn(120)
		}
		d.Perf = [][]string{nil, nil, nil, {}, {"CHF"}, {"USD", "CHF"}}[rng.Intn(6)] // an accrued transaction may carry a performance annotation too
		d.Acc = kj.Accrual{On: true, Iv: iv, S: s, E: e, A: []string{"Assets:Accrual", "Liabilities:Accrued"}[rng.Intn(2)]}
		acs[i] = accCase{QS: qs, Dir: d}
	}
	cases := make([]map[string]any, n)
	core.Parallel(n, func(i int) { cases[i] = observeAccrual(i+1, acs[i]) })
	seen := map[string]bool{}
	nt := 0
	for _, cs := range cases {
		t := cs["text"].(string)
		if seen[t] {
			continue
		}
		seen[t] = true
		for _, o := range cs["obs"].([]any) {
			if o.(map[string]any)["of"].(int) >= 2 {
				nt++
				break
			}
		}
	}
	c.Add("evaluations", n)
	c.Add("distinct_nontrivial", nt)
	c.Sample(map[string]any{"input": cases[0]["text"], "expansion": cases[0]["obs"]})
	c.JudgeAndReport("Trace_Accrual", "Trace_Accrual.cfg", cases, 16,
		func(old map[string]any) map[string]any {
			return observeAccrual(old["id"].(int), acs[old["id"].(int)-1])
		},
		func(cs map[string]any) (string, string) {
			sig := "accrual:" + fmt.Sprint(cs["why"])
			if cs["why"] == "totals-not-conserved" && strings.Contains(fmt.Sprint(cs["text"]), "Equity") {
				sig = "D2:equity-leg-lost-in-accrual"
			}
			return sig, fmt.Sprintf("transaction.Create expansion violates C10 (%v) for:\n%v\nobserved: %v\n%v", cs["why"], cs["text"], cs["obs"], cs["msg"])
		})
}
