package props

import (
	"encoding/csv"
	"fmt"
	"math/rand"
	"os"
	"path/filepath"
	"strings"
	"time"

	"kv/core"
)

// bigOf converts a decimal string with up to 8 decimals into a signed big number at scale 10^8:
// [neg, mag] with mag as little-endian base-10^4 limbs.
func bigOf(s string) (map[string]any, bool) {
	s = strings.TrimSpace(s)
	neg := strings.HasPrefix(s, "-")
	s = strings.TrimPrefix(s, "-")
	ip, fp := s, ""
	if k := strings.IndexByte(s, '.'); k >= 0 {
		ip, fp = s[:k], s[k+1:]
	}
	if len(fp) > 8 || ip == "" {
		return nil, false
	}
	digits := strings.TrimLeft(ip+fp+strings.Repeat("0", 8-len(fp)), "0")
	for _, ch := range digits {
		if ch < '0' || ch > '9' {
			return nil, false
		}
	}
	limbs := []any{}
	for len(digits) > 0 {
		k := len(digits) - 4
		if k < 0 {
			k = 0
		}
		v := 0
		fmt.Sscanf(digits[k:], "%d", &v)
		limbs = append(limbs, v)
		digits = digits[:k]
	}
	return map[string]any{"neg": neg && len(limbs) > 0, "mag": limbs}, true
}

// dec8 renders n / 10^8 as a decimal string.
func dec8(n int64) string {
	sign := ""
	if n < 0 {
		sign, n = "-", -n
	}
	s := fmt.Sprintf("%d.%08d", n/100000000, n%100000000)
	s = strings.TrimRight(strings.TrimRight(s, "0"), ".")
	return sign + s
}

type freeBooking struct {
	Z  int
	Cr string
	Dr string
	C  string
	Q  int64 // scale 10^8
}

type freeJob struct {
	Opens    []string
	Bookings []freeBooking
	Prices   []struct {
		Z int
		C string
		P int64
	}
	From, To int
	Iv       string
}

func (j *freeJob) render() string {
	var b strings.Builder
	for _, a := range j.Opens {
		fmt.Fprintf(&b, "%s open %s\n", ymd(j.From-3), a)
	}
	b.WriteString("\n")
	for _, p := range j.Prices {
		fmt.Fprintf(&b, "%s price %s %s CHF\n", ymd(p.Z), p.C, dec8(p.P))
	}
	b.WriteString("\n")
	for k, bk := range j.Bookings {
		fmt.Fprintf(&b, "%s \"b%d\"\n%s %s %s %s\n\n", ymd(bk.Z), k, bk.Cr, bk.Dr, dec8(bk.Q), bk.C)
	}
	return b.String()
}

// c03free decides the tolerance clause of C03 outside the exact regime: arbitrary 8-decimal quantities and
// prices; TLC (Trace_ValueFree over BigNat) requires every asset / liability cell of the exact CSV report to
// lie within steps * 10^-8 of the sum of position times latest price.
func c03free(c *core.Ctx, rng *rand.Rand) {
	knut := c.Knut("")
	dir := filepath.Join(c.Work, "c03free")
	os.MkdirAll(dir, 0o755)
	n := c.Pick(250, 4000)
	al := []string{"Assets:Depot", "Assets:Safe", "Liabilities:Loan", "Assets:Épargne"}
	other := []string{"Equity:Equity", "Expenses:Fees", "Income:Salary"}
	comms := []string{"AAPL", "XAU", "CHF", "BTC"}
	jobs := make([]*freeJob, n)
	randAmt := func() int64 {
		switch rng.Intn(5) {
		case 0:
			return int64(rng.Intn(1000)) * 100000000 // whole units
		case 1:
			return rng.Int63n(100000000) // < 1 with 8 decimals
		case 2:
			return rng.Int63n(900000000000000) // up to 9 * 10^6 units with 8 decimals
		case 3:
			return int64(rng.Intn(100000)) * 1000000 // two decimals
		}
		return rng.Int63n(100000000000)
	}
	for i := range jobs {
		j := &freeJob{Opens: append(append([]string{}, al...), other...), From: 18262 + rng.Intn(300)}
		days := 3 + rng.Intn(8)
		j.To = j.From + days - 1
		j.Iv = []string{"--days", "--days", "--weeks", "--once"}[rng.Intn(4)]
		for _, cm := range comms {
			if cm == "CHF" {
				continue
			}
			for d := 0; d < days; d++ {
				if d == 0 || rng.Intn(3) == 0 {
					p := 1 + randAmt()%2000000000000 // up to 20000 with 8 decimals, never zero
					j.Prices = append(j.Prices, struct {
						Z int
						C string
						P int64
					}{j.From + d, cm, p})
					if rng.Intn(8) == 0 { // a corrected quote on the same day
						j.Prices = append(j.Prices, struct {
							Z int
							C string
							P int64
						}{j.From + d, cm, 1 + randAmt()%2000000000000})
					}
				}
			}
		}
		for k := 2 + rng.Intn(8); k > 0; k-- {
			q := randAmt()
			if rng.Intn(4) == 0 {
				q = -q
			}
			a, o := al[rng.Intn(len(al))], other[rng.Intn(len(other))]
			if rng.Intn(5) == 0 {
				o = al[rng.Intn(len(al))] // between two asset / liability accounts
			}
			j.Bookings = append(j.Bookings, freeBooking{Z: j.From + rng.Intn(days), Cr: o, Dr: a, C: comms[rng.Intn(len(comms))], Q: q})
		}
		jobs[i] = j
	}
	run := func(i int) map[string]any {
		j := jobs[i]
		file := filepath.Join(dir, fmt.Sprintf("f%d.knut", i))
		os.WriteFile(file, []byte(j.render()), 0o644)
		defer os.Remove(file)
		argv := []string{"balance", "-v", "CHF", "--csv", j.Iv, "--from", ymd(j.From), "--to", ymd(j.To), file}
		r := core.Run(core.RunOpts{Timeout: 60 * time.Second}, knut, argv...)
		bks, prs, cells := []any{}, []any{}, []any{}
		isAL := func(a string) bool { return strings.HasPrefix(a, "Assets") || strings.HasPrefix(a, "Liabilities") }
		for _, b := range j.Bookings {
			q, _ := bigOf(dec8(b.Q))
			nq, _ := bigOf(dec8(-b.Q))
			if isAL(b.Dr) {
				bks = append(bks, map[string]any{"z": b.Z, "a": b.Dr, "c": b.C, "q": q})
			}
			if isAL(b.Cr) {
				bks = append(bks, map[string]any{"z": b.Z, "a": b.Cr, "c": b.C, "q": nq})
			}
		}
		for _, p := range j.Prices {
			pv, _ := bigOf(dec8(p.P))
			prs = append(prs, map[string]any{"z": p.Z, "c": p.C, "p": pv["mag"]})
		}
		cs := map[string]any{"id": i + 1, "v": "CHF", "bookings": bks, "prices": prs, "cells": cells, "exit": r.Exit,
			"argv": strings.Join(argv[:len(argv)-1], " "), "text": j.render(), "stdout": tailStr(r.Stdout, 3000), "stderr": tailStr(r.Stderr, 1000), "unreadable": false}
		if r.Exit != 0 {
			return cs
		}
		recs, err := csv.NewReader(strings.NewReader(r.Stdout)).ReadAll()
		if err != nil || len(recs) == 0 {
			cs["unreadable"] = true
			return cs
		}
		var dates []int
		for _, h := range recs[0][1:] {
			z, ok := parseYMD(h)
			if !ok {
				cs["unreadable"] = true
				return cs
			}
			dates = append(dates, z)
		}
		top := ""
		for _, rec := range recs[1:] {
			name := rec[0]
			switch name {
			case "Assets", "Liabilities", "Equity", "Income", "Expenses":
				top = name
				continue
			}
			if strings.HasPrefix(name, "Total") || name == "Delta" || (top != "Assets" && top != "Liabilities") {
				continue
			}
			for k, cell := range rec[1:] {
				if k >= len(dates) {
					break
				}
				if cell == "" {
					cell = "0"
				}
				v, ok := bigOf(cell)
				if !ok {
					cs["unreadable"] = true // more than 8 decimals or not a number: never produced by the 8-decimal arithmetic
					cs["badcell"] = cell
					return cs
				}
				cells = append(cells, map[string]any{"a": top + ":" + name, "z": dates[k], "shown": v})
			}
		}
		cs["cells"] = cells
		return cs
	}
	cases := make([]map[string]any, n)
	core.Parallel(n, func(i int) { cases[i] = run(i) })
	nt := 0
	for _, cs := range cases {
		if len(cs["cells"].([]any)) > 0 {
			nt++
		}
		if cs["unreadable"] == true {
			c.Violate("valued:unreadable-csv-cell", fmt.Sprintf("knut %v printed a CSV cell that is not a decimal with at most 8 decimals (%v)\n%v", cs["argv"], cs["badcell"], cs["stdout"]), map[string]string{"journal.knut": fmt.Sprint(cs["text"])})
		}
	}
	c.Add("free_regime_valued_reports", n)
	c.Add("free_regime_reports_with_cells", nt)
	c.JudgeAndReport("Trace_ValueFree", "Trace_ValueFree.cfg", cases, 16,
		func(old map[string]any) map[string]any { return run(old["id"].(int) - 1) },
		func(cs map[string]any) (string, string) {
			return "valuefree:" + fmt.Sprint(cs["why"]), fmt.Sprintf("knut %v: %v\n--- journal\n%v\n--- stdout\n%v\n%v", cs["argv"], cs["why"], cs["text"], cs["stdout"], cs["stderr"])
		})
}
