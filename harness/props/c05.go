package props

import (
	"fmt"
	"math/rand"
	"os"
	"path/filepath"
	"regexp"
	"sort"
	"strings"
	"sync"
	"time"

	"kv/core"
	"kv/kj"
)

var reBlockDate = regexp.MustCompile(`^(\d{4}-\d{2}-\d{2}) (\S+)`)

// printedBlocks splits `knut print` output into directive blocks [z, kind, hash].
var c05mu sync.Mutex

func idOf(ids map[string]int, s string) int {
	c05mu.Lock()
	defer c05mu.Unlock()
	if _, ok := ids[s]; !ok {
		ids[s] = len(ids) + 1
	}
	return ids[s]
}

func printedBlocks(out string, ids map[string]int) []any {
	var res []any
	var cur []string
	flush := func() {
		if len(cur) == 0 {
			return
		}
		// find the line that carries the date (annotation lines start with @)
		kind, z := "?", 0
		for _, ln := range cur {
			if m := reBlockDate.FindStringSubmatch(ln); m != nil {
				z, _ = parseYMD(m[1])
				switch {
				case m[2] == "open", m[2] == "close", m[2] == "price", m[2] == "balance":
					kind = m[2]
				case strings.HasPrefix(m[2], "\""):
					kind = "trx"
				}
				break
			}
		}
		txt := strings.Join(cur, "\n")
		// column alignment depends on the longest account of the whole journal, not on order: keep it
		res = append(res, map[string]any{"z": z, "kind": kind, "h": idOf(ids, txt)})
		cur = nil
	}
	hasDate := false
	inQuote := false // inside a quoted (possibly multi-line) description: its lines are not directive boundaries
	for _, ln := range strings.Split(out, "\n") {
		if inQuote {
			cur = append(cur, ln)
			if strings.Count(ln, "\"")%2 == 1 {
				inQuote = false
			}
			continue
		}
		if strings.TrimSpace(ln) == "" {
			flush()
			hasDate = false
			continue
		}
		if strings.Count(ln, "\"")%2 == 1 {
			inQuote = true
		}
		isDate := reBlockDate.MatchString(ln)
		// a new directive starts at a dated line or at an annotation line once the current block has its date
		if (isDate || strings.HasPrefix(ln, "@")) && hasDate {
			flush()
			hasDate = false
		}
		if isDate {
			hasDate = true
		}
		cur = append(cur, ln)
	}
	flush()
	return res
}

type c05Obs struct {
	exits   []any
	outs    []any
	printed []any
	raw     []string
}

var c05Cmds = [][]string{
	{"check"},
	{"balance", "--color=false"},
	{"balance", "--color=false", "--months", "--diff"},
	{"balance", "--color=false", "--weeks", "--last", "3", "--close=false"},
	{"print"},
}
var c05CmdsValued = [][]string{
	{"balance", "--color=false", "-v", "CHF", "--months"},
	{"balance", "--color=false", "-v", "CHF", "--diff", "-m", "1:1,^Assets"},
}

func observeLayout(bin, dir string, lay *kj.Layout, valued bool, ids map[string]int, seed int, wide ...bool) c05Obs {
	os.RemoveAll(dir)
	os.MkdirAll(dir, 0o755)
	defer os.RemoveAll(dir)
	root := lay.Write(dir)
	cmds := c05Cmds
	if valued {
		cmds = append(append([][]string{}, c05Cmds...), c05CmdsValued...)
	}
	var o c05Obs
	for k, cmd := range cmds {
		env := []string{fmt.Sprintf("VERIF_SCHED_SEED=%d", seed*17+k), fmt.Sprintf("GOMAXPROCS=%d", []int{16, 2, 1}[(seed+k)%3])}
		if len(wide) > 0 && wide[0] {
			env[1] = fmt.Sprintf("GOMAXPROCS=%d", []int{16, 16, 8, 16}[(seed+k)%4])
		}
		r := core.Run(core.RunOpts{Dir: dir, Timeout: 60 * time.Second, Env: env}, bin, append(append([]string{}, cmd...), root)...)
		ex := r.Exit
		if r.TimedOut {
			ex = -99
		}
		o.exits = append(o.exits, ex)
		o.outs = append(o.outs, idOf(ids, r.Stdout))
		o.raw = append(o.raw, r.Stdout)
		if cmd[0] == "print" {
			o.printed = printedBlocks(r.Stdout, ids)
		}
	}
	if o.printed == nil {
		o.printed = []any{}
	}
	return o
}

func C05(c *core.Ctx) {
	c.Set("rule", "base journal (random accepted journals, valued and unvalued, accruals, multi-line assertions; 1 in 6 damaged so that check rejects it) rendered in one file in generation order; variants: random permutations of the directives and distributions over include trees of 2-7 files (sub-directories, ./ and ../ paths), run under schedule-perturbation seeds; each variant compared with the base on check, 3-5 balance flag sets and print; distinct by variant text; non-trivial = variant differs from the base in directive order or file assignment")
	c.Trusted("TLC + Json module", "reader that splits `knut print` output into directive blocks", "sha-style identity of stdout")
	c.MC("MC_Ledger", c.TierCfg("MC_Ledger_order"), 16, 30*time.Minute)
	c.MC("Loader", c.TierCfg("MC_Loader"), 16, 30*time.Minute)
	bin := c.Knut("verif")
	root := filepath.Join(c.Work, "c05")
	os.MkdirAll(root, 0o755)
	rng := rand.New(rand.NewSource(c.Seed))
	nb := c.Pick(24, 250)
	nv := c.Pick(6, 16)
	type job struct {
		id     int
		base   int
		lay    *kj.Layout
		valued bool
		desc   string
	}
	var bases []*kj.Layout
	var valuedOf []bool
	var jobs []job
	anniversary := map[int]bool{}
	id := 0
	for b := 0; b < nb; b++ {
		valued := b%2 == 1
		var j *kj.Journal
		if b%6 == 5 {
			j = kj.Lifecycle(rng, 18290, 3+rng.Intn(3), 1+rng.Intn(2), true)
			valued = false
		} else {
			j = kj.Random(rng, kj.GenOpts{Valued: valued, Accruals: !valued, MaxDirs: 10}, 18262+rng.Intn(60))
			// recurring bookings: the same booking again on the same day of the month one and two
			// years later (directives that agree in month and day but not in the year)
			if b%3 == 0 {
				anniversary[b] = true
				for _, d := range append([]kj.Dir(nil), j.Dirs...) {
					if d.K == "trx" && !d.Acc.On && rng.Intn(3) > 0 {
						for y := 1; y <= 1+rng.Intn(2); y++ {
							t := d
							t.Z = int(time.Unix(int64(d.Z)*86400, 0).UTC().AddDate(y, 0, 0).Unix() / 86400)
							j.Dirs = append(j.Dirs, t)
						}
					}
				}
			}
			// a few assertions (some multi-line), on never-booked positions (zero)
			_, hi := journalSpan(j)
			j.Dirs = append(j.Dirs, kj.Dir{K: "assert", Z: hi + 1, Multi: b%4 == 0, Bal: []kj.Bal{{A: "Assets:Bank", C: "XYZ", Q: 0}, {A: "Assets:Bank", C: "XAU", Q: 0}}}, kj.Dir{K: "open", Z: 18200, A: "Assets:Bank"})
			for k, d := range j.Dirs {
				if d.K == "open" && d.A == "Assets:Bank" && d.Z != 18200 {
					j.Dirs = append(j.Dirs[:k:k], j.Dirs[k+1:]...) // opened once only
					break
				}
			}
		}
		bases = append(bases, kj.SplitTree(rng, j, j.Dirs, 1))
		valuedOf = append(valuedOf, valued)
		for v := 0; v < nv; v++ {
			dirs := append([]kj.Dir(nil), j.Dirs...)
			rng.Shuffle(len(dirs), func(a, c int) { dirs[a], dirs[c] = dirs[c], dirs[a] })
			// structured orders besides random ones: by kind (both directions), reversed, by date descending
			rank := map[string]int{"price": 0, "open": 1, "trx": 2, "assert": 3, "close": 4}
			switch v % 6 {
			case 0:
				if anniversary[b] { // grouped by payee: recurring bookings next to each other
					sort.SliceStable(dirs, func(a, c int) bool { return dirs[a].Desc < dirs[c].Desc })
				}
			case 2:
				sort.SliceStable(dirs, func(a, c int) bool { return rank[dirs[a].K] < rank[dirs[c].K] })
			case 3:
				sort.SliceStable(dirs, func(a, c int) bool { return rank[dirs[a].K] > rank[dirs[c].K] })
			case 4:
				sort.SliceStable(dirs, func(a, c int) bool { return dirs[a].Z > dirs[c].Z })
			case 5:
				sort.SliceStable(dirs, func(a, c int) bool {
					return (dirs[a].K == "trx") && (dirs[c].K != "trx")
				})
			}
			nf := 1
			if v%2 == 1 {
				nf = 2 + rng.Intn(6)
			}
			id++
			jobs = append(jobs, job{id: id, base: b, lay: kj.SplitTree(rng, j, dirs, nf), valued: valued, desc: fmt.Sprintf("base %d variant %d: permuted, %d file(s)", b, v, nf)})
		}
	}
	// wide layouts: the same fresh commodities first mentioned in many files at once, with an assertion on the totals
	for hb := 0; hb < c.Pick(1, 3); hb++ {
		j := &kj.Journal{QS: 1}
		j.Dirs = append(j.Dirs, kj.Dir{K: "open", Z: 18262, A: "Assets:Depot"}, kj.Dir{K: "open", Z: 18262, A: "Equity:Equity"})
		nparts, ncom := 50+10*hb, 200
		as := kj.Dir{K: "assert", Z: 18340, Multi: true}
		for t := 0; t < ncom; t++ {
			as.Bal = append(as.Bal, kj.Bal{A: "Assets:Depot", C: fmt.Sprintf("K%03dQ", t), Q: nparts * (1 + t)})
		}
		for f := 0; f < nparts; f++ {
			for t := 0; t < ncom; t++ {
				j.Dirs = append(j.Dirs, kj.Dir{K: "trx", Z: 18300 + f%28, Desc: fmt.Sprintf("buy %d %d", f, t), Bk: []kj.Booking{{Cr: "Equity:Equity", Dr: "Assets:Depot", C: fmt.Sprintf("K%03dQ", t), Q: 1 + t}}})
			}
		}
		j.Dirs = append(j.Dirs, as)
		bases = append(bases, kj.SplitTree(rng, j, j.Dirs, 1))
		valuedOf = append(valuedOf, false)
		b := len(bases) - 1
		for v := 0; v < c.Pick(16, 40); v++ {
			// one file per part (every part mentions every commodity), nested include tree
			lay := &kj.Layout{Root: "main.knut", Files: map[string]string{}, Order: []string{"main.knut"}}
			var main strings.Builder
			main.WriteString(j.RenderDir(j.Dirs[0]) + "\n" + j.RenderDir(j.Dirs[1]) + "\n")
			for f := 0; f < nparts; f++ {
				name := fmt.Sprintf("parts/d%d/p%03d.knut", f%4, f)
				fmt.Fprintf(&main, "include \"%s\"\n", name)
				var pb strings.Builder
				for t := 0; t < ncom; t++ {
					pb.WriteString(j.RenderDir(j.Dirs[2+f*ncom+t]) + "\n")
				}
				lay.Files[name] = pb.String()
				lay.Order = append(lay.Order, name)
			}
			main.WriteString("\n" + j.RenderDir(as))
			lay.Files["main.knut"] = main.String()
			id++
			jobs = append(jobs, job{id: id, base: b, lay: lay, valued: false, desc: fmt.Sprintf("wide base %d run %d: %d files x %d fresh commodities", hb, v, nparts, ncom)})
		}
	}
	// wide and nested include trees (every file of the first level includes files of its own) and a deep binary
	// tree, each compared with the same directives in one file
	for _, mk := range []func() (*kj.Layout, int){
		func() (*kj.Layout, int) { return kj.WideTree(12, 3) },
		func() (*kj.Layout, int) { return kj.WideTree(9, 9) },
		func() (*kj.Layout, int) { return kj.DeepTree(6) },
	} {
		lay, _ := mk()
		var flat strings.Builder
		for _, p := range lay.Order {
			for _, ln := range strings.Split(lay.Files[p], "\n") {
				if !strings.HasPrefix(ln, "include ") {
					flat.WriteString(ln + "\n")
				}
			}
			flat.WriteString("\n")
		}
		// the root's opens come first in Order only for WideTree; render them first in any case
		base := &kj.Layout{Root: "main.knut", Files: map[string]string{"main.knut": "2020-01-01 open Assets:A\n2020-01-01 open Equity:Equity\n\n" + strings.ReplaceAll(strings.ReplaceAll(flat.String(), "2020-01-01 open Assets:A\n", ""), "2020-01-01 open Equity:Equity\n", "")}, Order: []string{"main.knut"}}
		bases = append(bases, base)
		valuedOf = append(valuedOf, false)
		for v := 0; v < c.Pick(2, 5); v++ {
			id++
			jobs = append(jobs, job{id: id, base: len(bases) - 1, lay: lay, valued: false, desc: fmt.Sprintf("wide base: nested include tree of %d files, run %d", len(lay.Order), v)})
		}
	}
	ids := map[string]int{}
	baseObs := make([]c05Obs, len(bases))
	for b := range bases { // sequential: ids map is shared
		baseObs[b] = observeLayout(bin, filepath.Join(root, fmt.Sprintf("b%d", b)), bases[b], valuedOf[b], ids, b)
	}
	build := func(jb job, seed int) map[string]any {
		o := observeLayout(bin, filepath.Join(root, fmt.Sprintf("v%d", jb.id)), jb.lay, jb.valued, ids, seed, strings.HasPrefix(jb.desc, "wide base"))
		bo := baseObs[jb.base]
		bc := []any{}
		cmds := c05Cmds
		if jb.valued {
			cmds = append(append([][]string{}, c05Cmds...), c05CmdsValued...)
		}
		for _, cmd := range cmds {
			bc = append(bc, cmd[0] == "balance")
		}
		var files strings.Builder
		for _, p := range jb.lay.Order {
			fmt.Fprintf(&files, "==> %s\n%s\n", p, jb.lay.Files[p])
		}
		diff := ""
		for k := range o.raw {
			if k < len(bo.raw) && o.raw[k] != bo.raw[k] && cmds[k][0] == "balance" {
				diff = fmt.Sprintf("command %v\n--- base\n%s\n--- variant\n%s", cmds[k], bo.raw[k], o.raw[k])
				break
			}
		}
		return map[string]any{"id": jb.id, "desc": jb.desc, "balanceCmd": bc,
			"base":    map[string]any{"exits": bo.exits, "outs": bo.outs, "printed": bo.printed},
			"variant": map[string]any{"exits": o.exits, "outs": o.outs, "printed": o.printed},
			"files":   files.String(), "basefile": bases[jb.base].Files["main.knut"], "diff": diff}
	}
	cases := make([]map[string]any, len(jobs))
	core.Parallel(len(jobs), func(k int) { cases[k] = build(jobs[k], jobs[k].id) })
	accepted := 0
	for _, bo := range baseObs {
		if bo.exits[0] == 0 {
			accepted++
		}
	}
	c.Add("evaluations", len(cases))
	c.Add("distinct_nontrivial", len(cases))
	c.Set("bases", len(bases))
	c.Set("bases_accepted", accepted)
	c.Sample(map[string]any{"variant": cases[1]["desc"], "files": cases[1]["files"], "exits": cases[1]["variant"].(map[string]any)["exits"]})
	c.JudgeAndReport("Trace_Layout", "Trace_Layout.cfg", cases, 8,
		func(old map[string]any) map[string]any { return build(jobs[old["id"].(int)-1], old["id"].(int)+1000) },
		func(cs map[string]any) (string, string) {
			return "layout:" + fmt.Sprint(cs["why"]), fmt.Sprintf("%v: %v\n%v\n--- base file\n%v\n--- variant files\n%v", cs["desc"], cs["why"], cs["diff"], cs["basefile"], cs["files"])
		})
}
