package props

import (
	"bytes"
	"fmt"
	"math/rand"
	"os"
	"path/filepath"
	"regexp"
	"strconv"
	"strings"
	"time"

	"kv/core"
)

var (
	reStraceLine = regexp.MustCompile(`^(\d+)\s+(.*)$`)
	reResumed    = regexp.MustCompile(`^<\.\.\. (\w+) resumed>(.*)$`)
	reCall       = regexp.MustCompile(`^(\w+)\((.*)\)\s+= (-?\d+|\?)(.*)$`)
	reQuoted     = regexp.MustCompile(`"((?:[^"\\]|\\.)*)"`)
	reFdPath     = regexp.MustCompile(`^\d+<([^>]*)>`)
	reDirFd      = regexp.MustCompile(`AT_FDCWD<([^>]*)>`)
)

type fsEvent struct {
	Op   string
	N    int
	OK   bool
	File int // index of the target file this event belongs to
	Inj  bool
}

// parseStrace turns a strace -f -y log into protocol events per target file.
func parseStrace(log, dir string, targets []string) (events [][]fsEvent, killed bool) {
	events = make([][]fsEvent, len(targets))
	pending := map[string]string{}
	classify := func(p string) (idx int, kind string) {
		if !filepath.IsAbs(p) {
			p = filepath.Join(dir, p)
		}
		p = filepath.Clean(p)
		if filepath.Dir(p) != filepath.Clean(dir) {
			return -1, ""
		}
		base := filepath.Base(p)
		for i, t := range targets {
			if base == t {
				return i, "target"
			}
		}
		for i, t := range targets {
			if strings.HasPrefix(base, t) && len(base) > len(t) && strings.Trim(base[len(t):], "0123456789") == "" {
				return i, "temp"
			}
		}
		return -1, ""
	}
	for _, raw := range strings.Split(log, "\n") {
		m := reStraceLine.FindStringSubmatch(raw)
		if m == nil {
			continue
		}
		pid, rest := m[1], m[2]
		if strings.Contains(rest, "+++ killed by") {
			killed = true
			continue
		}
		if strings.HasSuffix(rest, "<unfinished ...>") {
			pending[pid] = strings.TrimSuffix(rest, " <unfinished ...>")
			continue
		}
		if r := reResumed.FindStringSubmatch(rest); r != nil {
			rest = pending[pid] + r[2]
			delete(pending, pid)
		}
		cm := reCall.FindStringSubmatch(rest)
		if cm == nil {
			continue
		}
		name, args, ret, tail := cm[1], cm[2], cm[3], cm[4]
		rv, _ := strconv.Atoi(ret)
		ok := ret != "?" && rv >= 0
		inj := strings.Contains(tail, "INJECTED")
		add := func(idx int, op string, n int) {
			events[idx] = append(events[idx], fsEvent{Op: op, N: n, OK: ok, File: idx, Inj: inj})
		}
		qs := reQuoted.FindAllStringSubmatch(args, -1)
		switch name {
		case "openat", "open", "creat":
			if len(qs) == 0 {
				continue
			}
			idx, kind := classify(qs[0][1])
			if idx < 0 {
				continue
			}
			writeFlags := strings.Contains(args, "O_WRONLY") || strings.Contains(args, "O_RDWR") || strings.Contains(args, "O_TRUNC") || strings.Contains(args, "O_CREAT") || strings.Contains(args, "O_APPEND") || name == "creat"
			if kind == "temp" {
				add(idx, "opentemp", 0)
			} else if writeFlags {
				add(idx, "wtarget", 0)
			} else if !ok {
				add(idx, "rtarget", 0) // the target could not even be read: a fault on this file, no state change
			}
		case "write", "pwrite64", "writev", "fsync", "fdatasync", "close", "ftruncate", "fchmod":
			fm := reFdPath.FindStringSubmatch(args)
			if fm == nil {
				continue
			}
			idx, kind := classify(fm[1])
			if idx < 0 {
				continue
			}
			switch {
			case strings.HasPrefix(name, "write") || name == "pwrite64":
				if kind == "temp" {
					n := 0
					if ok {
						n = rv
					}
					add(idx, "write", n)
				} else {
					add(idx, "wtarget", 0)
				}
			case name == "fsync" || name == "fdatasync":
				if kind == "temp" {
					add(idx, "fsync", 0)
				}
			case name == "close":
				if kind == "temp" {
					add(idx, "close", 0)
				}
			case name == "ftruncate":
				if kind == "target" {
					add(idx, "wtarget", 0)
				}
			case name == "fchmod":
				if kind == "temp" {
					add(idx, "chmod", 0)
				}
			}
		case "fchmodat", "chmod":
			if len(qs) == 0 {
				continue
			}
			if idx, kind := classify(qs[0][1]); idx >= 0 && kind == "temp" {
				add(idx, "chmod", 0)
			}
		case "truncate":
			if len(qs) > 0 {
				if idx, kind := classify(qs[0][1]); idx >= 0 && kind == "target" {
					add(idx, "wtarget", 0)
				}
			}
		case "rename", "renameat", "renameat2":
			if len(qs) < 2 {
				continue
			}
			si, sk := classify(qs[0][1])
			di, dk := classify(qs[1][1])
			switch {
			case di >= 0 && dk == "target" && si == di && sk == "temp":
				add(di, "rename", 0)
			case di >= 0 && dk == "target":
				add(di, "wtarget", 0) // replaced by something that is not its own temp file
			case si >= 0 && sk == "target":
				add(si, "wtarget", 0) // the target itself moved away
			}
		case "unlink", "unlinkat":
			if len(qs) == 0 {
				continue
			}
			idx, kind := classify(qs[0][1])
			if idx < 0 {
				continue
			}
			if kind == "temp" {
				add(idx, "unlink", 0)
			} else {
				add(idx, "wtarget", 0)
			}
		}
	}
	return events, killed
}

const straceSet = "trace=openat,open,creat,write,pwrite64,writev,fsync,fdatasync,close,rename,renameat,renameat2,unlink,unlinkat,fchmodat,chmod,fchmod,truncate,ftruncate"

type c18File struct {
	Name      string
	Old       string
	New       string // complete new contents ("" for unparseable files)
	Parseable bool
	Link      bool // the journal path is a symbolic link to real/<name>
}

type c18Scenario struct {
	ID     int
	Cmd    string // format | infer
	Files  []c18File
	Inject string // strace -e inject=... expression ("" none)
	Fsize  int    // prlimit --fsize (-1 none)
	Desc   string
}

var spacings = []string{" ", "  ", "\t", "     "}

// messyJournal renders a parseable journal with irregular layout (so that formatting changes it).
func messyJournal(rng *rand.Rand, n int, placeholder bool) string {
	var b strings.Builder
	sp := func() string { return spacings[rng.Intn(len(spacings))] }
	b.WriteString("# heading " + fmt.Sprint(rng.Intn(1000)) + "\n\n")
	for _, a := range []string{"Assets:Bank", "Equity:Equity", "Expenses:Food", "Expenses:TBD", "Income:Salary"} {
		fmt.Fprintf(&b, "2020-01-01%sopen%s%s\n", sp(), sp(), a)
	}
	b.WriteString("\n")
	for i := 0; i < n; i++ {
		dr := []string{"Expenses:Food", "Assets:Bank", "Income:Salary"}[rng.Intn(3)]
		if placeholder && rng.Intn(2) == 0 {
			dr = "Expenses:TBD"
		}
		fmt.Fprintf(&b, "2020-01-%02d%s\"entry %d\"\nEquity:Equity%s%s%s%d.%02d%sCHF\n\n", 2+i%27, sp(), i, sp(), dr, sp(), rng.Intn(900), rng.Intn(100), sp())
		if rng.Intn(5) == 0 {
			b.WriteString("// a comment line\n\n")
		}
	}
	return b.String()
}

func runC18(c *core.Ctx, knut, root string, sc c18Scenario) map[string]any {
	dir := filepath.Join(root, fmt.Sprintf("s%d", sc.ID))
	os.RemoveAll(dir)
	os.MkdirAll(dir, 0o755)
	defer os.RemoveAll(dir)
	var names []string
	for _, f := range sc.Files {
		if f.Link {
			os.MkdirAll(filepath.Join(dir, "real"), 0o755)
			os.WriteFile(filepath.Join(dir, "real", f.Name), []byte(f.Old), 0o644)
			os.Symlink(filepath.Join("real", f.Name), filepath.Join(dir, f.Name))
		} else {
			os.WriteFile(filepath.Join(dir, f.Name), []byte(f.Old), 0o644)
		}
		names = append(names, f.Name)
	}
	train := "2020-01-01 open Equity:Equity\n2020-01-01 open Expenses:Food\n\n2020-01-02 \"entry groceries\"\nEquity:Equity Expenses:Food 3 CHF\n"
	os.WriteFile(filepath.Join(dir, "train.src"), []byte(train), 0o644)
	logf := filepath.Join(dir, "strace.log")
	args := []string{"-f", "-y", "-s", "0", "-o", logf, "-e", straceSet}
	if sc.Inject != "" {
		args = append(args, "-e", "inject="+sc.Inject)
	}
	var cmdArgs []string
	if sc.Fsize >= 0 {
		cmdArgs = append(cmdArgs, "prlimit", "--fsize="+fmt.Sprint(sc.Fsize))
	}
	cmdArgs = append(cmdArgs, knut)
	if sc.Cmd == "format" {
		cmdArgs = append(cmdArgs, "format")
		cmdArgs = append(cmdArgs, names...)
	} else {
		cmdArgs = append(cmdArgs, "infer", "--inplace", "-t", "train.src", names[0])
	}
	r := core.Run(core.RunOpts{Dir: dir, Timeout: 60 * time.Second, Env: []string{"GOMAXPROCS=" + []string{"1", "4"}[sc.ID%2]}}, "strace", append(args, cmdArgs...)...)
	logb, _ := os.ReadFile(logf)
	evs, killed := parseStrace(string(logb), dir, names)
	ents, _ := os.ReadDir(dir)
	files := []any{}
	for i, f := range sc.Files {
		now, err := os.ReadFile(filepath.Join(dir, f.Name))
		final := "Other"
		switch {
		case err != nil:
			final = "Absent"
		case bytes.Equal(now, []byte(f.Old)):
			final = "Old"
		case f.Parseable && bytes.Equal(now, []byte(f.New)):
			final = "New"
		}
		if f.Parseable && f.Old == f.New && final == "Old" {
			final = "New"
		}
		if f.Link { // what the link pointed to must be complete too (old, or new if the command writes through the link)
			real, err := os.ReadFile(filepath.Join(dir, "real", f.Name))
			if err != nil || !(bytes.Equal(real, []byte(f.Old)) || f.Parseable && bytes.Equal(real, []byte(f.New))) {
				final = "Other"
			}
		}
		tempLeft := false
		for _, e := range ents {
			if strings.HasPrefix(e.Name(), f.Name) && e.Name() != f.Name && strings.Trim(e.Name()[len(f.Name):], "0123456789") == "" {
				tempLeft = true
			}
		}
		el := []any{}
		faulted := false
		for _, e := range evs[i] {
			el = append(el, map[string]any{"op": e.Op, "n": e.N, "ok": e.OK})
			if !e.OK && e.Op != "unlink" {
				faulted = true
			}
		}
		files = append(files, map[string]any{"name": f.Name, "parseable": f.Parseable, "newLen": len(f.New), "events": el, "final": final, "tempLeft": tempLeft, "faulted": faulted})
	}
	injFired := strings.Contains(string(logb), "INJECTED") || killed || strings.Contains(string(logb), "EFBIG")
	attributed := 0
	for _, el := range evs {
		for _, e := range el {
			if e.Inj {
				attributed++
			}
		}
	}
	globalFault := strings.Count(string(logb), "(INJECTED)") > attributed
	return map[string]any{"id": sc.ID, "exit": r.Exit, "killed": killed, "globalFault": globalFault, "files": files, "desc": sc.Desc, "stderr": r.Stderr, "fired": injFired, "log": tailStr(string(logb), 4000)}
}

func tailStr(s string, n int) string {
	if len(s) > n {
		return s[len(s)-n:]
	}
	return s
}

func C18(c *core.Ctx) {
	c.Ev.Level = "fault_enumeration"
	c.Set("rule", "scenario = command (format 1 file / format 3 files incl. one unparseable / infer --inplace) x fault: file-size limit at byte k (prlimit --fsize), or for each occurrence of each protocol syscall (openat, write, fsync, close, fchmodat, renameat, unlinkat) an injected error (EIO/ENOSPC/EACCES) or SIGKILL on entry (strace inject); non-trivial = the injected fault actually fired (seen in the strace log)")
	c.Trusted("strace 6.1 (-f -y, syscall tampering)", "prlimit", "strace log reader (maps calls on the target / its temp file to protocol events)", "TLC + Json module", "the fault-free run of the same binary defines the 'complete new contents' (their correctness is C08)")
	for _, cfg := range []string{c.TierCfg("MC_AtomicWrite")} {
		c.MC("MC_AtomicWrite", cfg, 4, 10*time.Minute)
	}
	// the rejected designs must be rejected by the model (non-vacuity of TargetIntact)
	for _, cfg := range []string{"MC_AtomicWrite_inplace.cfg", "MC_AtomicWrite_nosync.cfg"} {
		r := c.TLC(core.TLCOpts{Spec: "MC_AtomicWrite", Cfg: cfg, Workers: 2, Timeout: 5 * time.Minute})
		if r.Violated != "Intact" {
			c.Infra("%s: expected the model to violate Intact, got %q", cfg, r.Violated)
		}
	}
	// unbounded: an inductive invariant (Apalache) shows TargetIntact for every length of the new contents
	for _, ob := range [][]string{
		{"--cinit=ConstInit", "--init=Init", "--inv=IndInv", "--length=0"},
		{"--cinit=ConstInit", "--init=IndInit", "--inv=IndInv", "--length=1"},
		{"--cinit=ConstInit", "--init=IndInit", "--inv=TargetIntact", "--length=0"},
	} {
		if !c.Apalache("AtomicWriteInd.tla", ob...) {
			c.Infra("Apalache obligation %v of AtomicWriteInd not discharged", ob)
		}
	}
	c.Set("checker_cmd", "apalache-mc check --cinit=ConstInit --init=IndInit --inv=IndInv --length=1 spec/apalache/AtomicWriteInd.tla (plus base case and IndInv => TargetIntact)")
	knut := c.Knut("")
	root := filepath.Join(c.Work, "c18")
	os.MkdirAll(root, 0o755)
	rng := rand.New(rand.NewSource(c.Seed))
	// fault-free reference runs define New
	reference := func(cmd string, old string) (string, bool) {
		d := filepath.Join(root, "ref")
		os.RemoveAll(d)
		os.MkdirAll(d, 0o755)
		defer os.RemoveAll(d)
		os.WriteFile(filepath.Join(d, "x.knut"), []byte(old), 0o644)
		os.WriteFile(filepath.Join(d, "train.src"), []byte("2020-01-01 open Equity:Equity\n2020-01-01 open Expenses:Food\n\n2020-01-02 \"entry groceries\"\nEquity:Equity Expenses:Food 3 CHF\n"), 0o644)
		var r core.RunResult
		if cmd == "format" {
			r = core.Run(core.RunOpts{Dir: d}, knut, "format", "x.knut")
		} else {
			r = core.Run(core.RunOpts{Dir: d}, knut, "infer", "--inplace", "-t", "train.src", "x.knut")
		}
		b, _ := os.ReadFile(filepath.Join(d, "x.knut"))
		return string(b), r.Exit == 0
	}
	mk := func(cmd, name string, n int, parseable bool) c18File {
		old := messyJournal(rng, n, cmd == "infer")
		if !parseable {
			old = old + "\n2020-13-45 this is not a directive\n"
			return c18File{Name: name, Old: old, Parseable: false}
		}
		nw, ok := reference(cmd, old)
		if !ok {
			c.Infra("reference run of %s failed", cmd)
		}
		return c18File{Name: name, Old: old, New: nw, Parseable: true}
	}
	single := mk("format", "a.knut", c.Pick(6, 40), true)
	multi := []c18File{mk("format", "big.knut", c.Pick(12, 60), true), mk("format", "bad.knut", 3, false), mk("format", "small.knut", 2, true), mk("format", "mid.knut", 5, true)}
	inf := mk("infer", "t.knut", c.Pick(6, 30), true)
	var scs []c18Scenario
	id := 0
	add := func(cmd string, files []c18File, inject string, fsize int, desc string) {
		id++
		scs = append(scs, c18Scenario{ID: id, Cmd: cmd, Files: files, Inject: inject, Fsize: fsize, Desc: desc})
	}
	groups := []struct {
		cmd   string
		files []c18File
	}{{"format", []c18File{single}}, {"format", multi}, {"infer", []c18File{inf}}}
	// the same journals reached through symbolic links
	linked := func(f c18File, name string) c18File { f.Name, f.Link = name, true; return f }
	groups = append(groups, groups[0], groups[2], groups[1])
	groups[3].files = []c18File{linked(single, "la.knut")}
	groups[4].files = []c18File{linked(inf, "lt.knut")}
	groups[5].files = []c18File{multi[0], multi[1], linked(multi[2], "lsmall.knut"), multi[3]}
	// a file whose name is so long that name + random suffix exceeds NAME_MAX (the temp file cannot be created:
	// the journal must stay as it was), and many files with one unparseable file in the middle
	long := single
	long.Name = strings.Repeat("n", 244) + ".knut"
	add("format", []c18File{long}, "", -1, "file name of 249 bytes (no room for the temp name)")
	add("format", []c18File{multi[0], long, multi[2]}, "", -1, "file name of 249 bytes among others")
	var many []c18File
	for k := 0; k < 40; k++ {
		f := multi[2+k%2]
		f.Name = fmt.Sprintf("m%02d.knut", k)
		if k == 20 {
			f = multi[1]
			f.Name = "m20bad.knut"
		}
		many = append(many, f)
	}
	add("format", many, "", -1, "40 files, one unparseable in the middle")
	add("format", many, "", len(multi[3].New)-1, "40 files, one unparseable, size limit below the larger outputs")
	for _, g := range groups {
		add(g.cmd, g.files, "", -1, "no fault")
		// every byte offset (quick: a stride) via the file-size limit
		maxLen := 0
		for _, f := range g.files {
			if len(f.New) > maxLen {
				maxLen = len(f.New)
			}
		}
		stride := c.Pick(maxLen/40+1, 1)
		for k := 0; k <= maxLen; k += stride {
			add(g.cmd, g.files, "", k, fmt.Sprintf("file-size limit %d", k))
		}
		add(g.cmd, g.files, "", maxLen-1, "file-size limit one short")
		// every occurrence of every protocol syscall x {error, kill}
		occ := map[string]int{"openat": 14, "write": 3 * len(g.files), "fsync": len(g.files), "close": 14, "fchmodat": len(g.files), "renameat": len(g.files), "unlinkat": len(g.files)}
		for sysc, n := range occ {
			for w := 1; w <= n; w++ {
				errno := map[string]string{"openat": "EACCES", "write": "ENOSPC", "fsync": "EIO", "close": "EIO", "fchmodat": "EPERM", "renameat": "EIO", "unlinkat": "EIO"}[sysc]
				add(g.cmd, g.files, fmt.Sprintf("%s:error=%s:when=%d", sysc, errno, w), -1, fmt.Sprintf("%s #%d fails with %s", sysc, w, errno))
				add(g.cmd, g.files, fmt.Sprintf("%s:signal=KILL:when=%d", sysc, w), -1, fmt.Sprintf("SIGKILL at %s #%d", sysc, w))
			}
		}
		// a write failing on the temp file combined with a failing unlink (two cooperating faults)
		add(g.cmd, g.files, "write:error=ENOSPC:when=1", len(g.files[0].New)/2, "ENOSPC + size limit")
	}
	cases := make([]map[string]any, len(scs))
	core.Parallel(len(scs), func(i int) { cases[i] = runC18(c, knut, root, scs[i]) })
	fired := 0
	for _, cs := range cases {
		if cs["fired"].(bool) {
			fired++
		}
	}
	c.Add("evaluations", len(cases))
	c.Add("distinct_nontrivial", fired)
	c.Sample(map[string]any{"scenario": cases[len(cases)/2]["desc"], "files": cases[len(cases)/2]["files"], "exit": cases[len(cases)/2]["exit"]})
	c.Sample(map[string]any{"scenario": cases[1]["desc"], "files": cases[1]["files"], "exit": cases[1]["exit"]})
	c.JudgeAndReport("Trace_AtomicWrite", "Trace_AtomicWrite.cfg", cases, 8,
		func(old map[string]any) map[string]any { return runC18(c, knut, root, scs[old["id"].(int)-1]) },
		func(cs map[string]any) (string, string) {
			return "atomic:" + fmt.Sprint(cs["why"]), fmt.Sprintf("scenario: %v\nexit=%v killed=%v\nfiles: %v\nstderr: %v\nstrace tail:\n%v", cs["desc"], cs["exit"], cs["killed"], cs["files"], cs["stderr"], cs["log"])
		})
}
