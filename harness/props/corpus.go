package props

import "strings"

// oddJournals: hand-written journals that knut accepts and that sit in odd corners of the input space
// (compiled from independent catalogues of unusual-but-valid input shapes, one per property).  They are
// run through the text-level oracles of C07 (parse), C08 (format), C09 (print round trip) and C14 (every
// command fails cleanly or succeeds).
func oddJournals() []string {
	big := strings.Repeat("1234567890", 6)
	frac := strings.Repeat("0", 44) + "1000"
	js := []string{
		// assertions on balances strictly between -1 and 0, and between 0 and 1 (sign and leading zero)
		"2020-01-01 open Liabilities:Card\n2020-01-01 open Expenses:B\n2020-01-01 open Assets:A\n\n2020-01-02 \"x\"\nLiabilities:Card Expenses:B 0.45 CHF\n\n2020-01-02 \"y\"\nLiabilities:Card Assets:A 0.001 USD\n\n2020-01-03 balance Liabilities:Card -0.45 CHF\n2020-01-03 balance\nLiabilities:Card -0.450 CHF\nLiabilities:Card -0.001 USD\nAssets:A 0.001 USD\n\n2020-01-04 \"z\"\nLiabilities:Card Expenses:B 0.54 CHF\n\n2020-01-05 balance Liabilities:Card -0.99 CHF\n",
		// negative amounts with leading / trailing zeros; zero in all spellings; self-transfer with same-day close
		"2020-01-01 open Assets:A\n2020-01-01 open Expenses:B\n\n2020-01-02 \"x\"\nAssets:A Expenses:B -007.500 USD\n",
		"2020-01-01 open Assets:A\n2020-01-01 open Expenses:B\n\n2020-01-02 \"x\"\nAssets:A Expenses:B -0 USD\nAssets:A Expenses:B -0.00 USD\nAssets:A Expenses:B 0 USD\nAssets:A Expenses:B 0.000 USD\n",
		"2020-01-02 open Assets:A\n\n2020-01-02 \"x\"\nAssets:A Assets:A 3 USD\n\n2020-01-02 close Assets:A\n",
		// very large / very precise decimals, with a matching assertion
		"2020-01-01 open Assets:A\n2020-01-01 open Expenses:B\n\n2020-01-02 \"x\"\nExpenses:B Assets:A " + big + "." + frac + " USD\n\n2020-01-02 balance Assets:A " + big + "." + frac + " USD\n",
		// non-ASCII digits and letters in names; bare top-level accounts; keywords as segments and commodities
		"2020-01-01 open Assets:١٢\n2020-01-01 open Expenses:B\n\n2020-01-02 \"x\"\nAssets:١٢ Expenses:B 1 ٣\n",
		"2020-01-01 open Assets:Café:日本:عربي:ǅ\n2020-01-01 open Expenses:B\n\n2020-01-02 \"x\"\nAssets:Café:日本:عربي:ǅ Expenses:B 1 円\n",
		"2020-01-01 open Assets\n2020-01-01 open Equity\n\n2020-01-02 \"x\"\nEquity Assets 1 USD\n\n2020-01-02 balance Assets 1 USD\n",
		"2020-01-01 open Assets:open:balance:include:price\n2020-01-01 open Expenses:close\n\n2020-01-02 \"x\"\nAssets:open:balance:include:price Expenses:close 1 open\n\n2020-01-02 price open 2 balance\n",
		"2020-01-01 open Assets:1:2\n2020-01-01 open Income:0\n\n2020-01-02 \"x\"\nIncome:0 Assets:1:2 5 1\n\n2020-01-03 price 1 2 0X\n",
		"2020-01-01 open Assets:bank\n2020-01-01 open Assets:Bank\n2020-01-01 open Equity:Equity\n\n2020-01-02 \"x\"\nEquity:Equity Assets:bank 1 chf\nEquity:Equity Assets:Bank 2 CHF\nEquity:Equity Assets:Bank 3 Chf\n",
		"2020-01-01 open Assets:" + strings.Repeat("x", 3000) + "\n2020-01-01 open Expenses:B\n\n2020-01-02 \"x\"\nAssets:" + strings.Repeat("x", 3000) + " Expenses:B 1 USD\n",
		"2020-01-01 open Assets" + strings.Repeat(":S", 120) + "\n2020-01-01 open Expenses:B\n\n2020-01-02 \"x\"\nAssets" + strings.Repeat(":S", 120) + " Expenses:B 1 USD\n",
		// descriptions: embedded directives and blank lines, odd runes, empty, blank-only, literal accrual suffix, printf verbs
		"2020-01-01 open Assets:A\n2020-01-01 open Expenses:B\n\n2020-01-02 \"line1\n2020-01-01 open Assets:X\n\n@performance(USD)\n\"\nAssets:A Expenses:B 1 USD\n",
		"2020-01-01 open Assets:A\n2020-01-01 open Expenses:B\n\n2020-01-02 \"a\x00b �   ‏ 😀 \\\\ %s %d 'q'\"\nAssets:A Expenses:B 1 USD\n",
		"2020-01-01 open Assets:A\n2020-01-01 open Expenses:B\n\n2020-01-02 \"\"\nAssets:A Expenses:B 1 USD\n\n2020-01-02 \" \"\nAssets:A Expenses:B 2 USD\n\n2020-01-02 \"\n\"\nAssets:A Expenses:B 3 USD\n",
		"2020-01-01 open Assets:A\n2020-01-01 open Expenses:B\n2020-01-01 open Assets:Accrual\n\n@accrue monthly 2020-01-01 2020-03-31 Assets:Accrual\n2020-01-02 \"rent\"\nAssets:A Expenses:B 300 USD\n\n2020-01-31 \"rent (accrual 1/3)\"\nAssets:Accrual Expenses:B 100 USD\n",
		// CRLF, lone CR as separator, tabs, trailing blanks, no final newline, whitespace-only separator line
		"2020-01-01\ropen\rAssets:A\r\n2020-01-01 open Expenses:B\r\n\r\n@performance( USD )\r\n2020-01-02 \"x\r\ny\"\r\nAssets:A Expenses:B 1 USD\r\n",
		"2020-01-01\topen\t\tAssets:A   \n2020-01-01 open Expenses:B\t\n\n2020-01-02   \"x\"  \nAssets:A\tExpenses:B\t 1\t USD  \n \t \n2020-01-03 \"y\"\nAssets:A Expenses:B 2 USD",
		"2020-01-01 open Assets:A\n\n2020-01-02 balance\nAssets:A 0 USD\nAssets:A 0 CHF",
		"2020-01-01 open Assets:A\n\n2020-01-02 balance\nAssets:A 0 USD\n\n2020-01-02 balance\nAssets:A 0.00 USD\nAssets:A 0.00 USD\n\n2020-01-02 balance Assets:A 0 EUR\n",
		// comments only, empty, headings
		"", "\n\n", "# only\n// comments\n* heading\n\n#\n",
		// reverse chronological order, one day written as close, transaction, balance, open
		"2020-01-03 close Assets:A\n\n2020-01-03 \"out\"\nAssets:A Equity:Equity 5 USD\n\n2020-01-03 balance Assets:A 0 USD\n2020-01-02 \"in\"\nEquity:Equity Assets:A 5 USD\n\n2020-01-01 open Equity:Equity\n2020-01-01 open Assets:A\n",
		// zero assertions on never-touched positions and on nominal accounts; life cycle: open+close same day, re-open
		"2020-01-01 open Assets:A\n2020-01-01 open Income:I\n2020-01-01 open Equity:Equity\n\n2020-01-02 \"x\"\nIncome:I Assets:A 5 USD\n\n2020-01-03 balance Income:I 0 USD\n2020-01-03 balance Assets:A 0 XYZ\n2020-01-03 balance Equity:Equity 0 USD\n",
		"2020-01-01 open Assets:A\n2020-01-01 close Assets:A\n2020-01-02 open Assets:A\n2020-01-02 open Equity:Equity\n\n2020-01-02 \"x\"\nEquity:Equity Assets:A 0 USD\n\n2020-01-03 close Assets:A\n2020-01-05 open Assets:A\n2020-01-06 close Assets:A\n",
		// performance annotations: empty, duplicates, inner blanks; with accrual in either order and a negative amount
		"2020-01-01 open Assets:A\n2020-01-01 open Expenses:B\n\n@performance()\n2020-01-02 \"a\"\nAssets:A Expenses:B 1 USD\n\n@performance(\tUSD , USD,CHF )\n2020-01-02 \"b\"\nAssets:A Expenses:B 1 USD\n",
		"2020-01-01 open Assets:A\n2020-01-01 open Expenses:B\n2020-01-01 open Assets:Acc\n\n@performance(USD)\n@accrue weekly 2020-01-01 2020-01-20 Assets:Acc\n2020-01-02 \"a\"\nAssets:A Expenses:B -10.07 USD\n\n@accrue daily 2020-02-28 2020-03-01 Assets:Acc\n@performance()\n2020-01-02 \"b\"\nAssets:A Expenses:B 0.01 USD\n",
		// accrual corner cases: no nominal side, both sides nominal, accrual account equal to the booked account, nominal accrual account, single day, mixed commodities with a zero booking
		"2020-01-01 open Assets:A\n2020-01-01 open Liabilities:L\n2020-01-01 open Income:I\n2020-01-01 open Expenses:E\n2020-01-01 open Assets:Acc\n\n@accrue monthly 2020-01-01 2020-03-31 Assets:Acc\n2020-01-02 \"no nominal side\"\nAssets:A Liabilities:L 30 USD\n\n@accrue monthly 2020-01-01 2020-03-31 Assets:Acc\n2020-01-02 \"both nominal\"\nIncome:I Expenses:E 30 USD\n\n@accrue monthly 2020-01-01 2020-03-31 Assets:A\n2020-01-02 \"accrual account = booked account\"\nAssets:A Expenses:E 30 USD\n\n@accrue quarterly 2020-02-29 2020-02-29 Expenses:E\n2020-01-02 \"nominal accrual account, single day\"\nAssets:A Expenses:E 0.29 USD\n\n@accrue weekly 2019-12-30 2020-01-06 Assets:Acc\n2020-01-02 \"mixed\"\nAssets:A Expenses:E 7 USD\nAssets:A Expenses:E 0 CHF\nIncome:I Assets:A 3.33 EUR\n",
		// more than a dozen same-day transactions that compare equal and differ only in their performance targets
		"2020-01-01 open Assets:A\n2020-01-01 open Expenses:B\n\n" + func() string {
			var b strings.Builder
			for k := 0; k < 15; k++ {
				b.WriteString([]string{"@performance(USD)\n", "@performance(CHF)\n", "", "@performance()\n"}[k%4])
				b.WriteString("2020-01-02 \"same\"\nAssets:A Expenses:B 1 USD\n\n")
			}
			return b.String()
		}(),
		// dates at the edges; far future
		"0000-02-29 open Assets:A\n0000-02-29 open Equity:Equity\n\n0000-02-29 \"x\"\nEquity:Equity Assets:A 1 USD\n\n9999-12-31 \"y\"\nEquity:Equity Assets:A 1 USD\n\n9999-12-31 balance Assets:A 2 USD\n",
		"0001-01-01 open Assets:A\n0001-01-01 open Equity:Equity\n\n0001-01-02 \"x\"\nEquity:Equity Assets:A 1 USD\n\n2400-02-29 \"y\"\nEquity:Equity Assets:A 1 USD\n",
		// price oddities that print accepts: several contradictory prices of a pair and its inverse on one day, price-only days, trailing zeros
		"2020-01-01 open Assets:A\n2020-01-01 open Equity:Equity\n\n2020-01-02 price USD 0.90 CHF\n2020-01-02 price CHF 1.25 USD\n2020-01-02 price USD 0.9500 CHF\n2020-01-05 price AAPL 100.000 USD\n\n2020-01-03 \"x\"\nEquity:Equity Assets:A 10 USD\n",
		// many bookings, many commodities, duplicates, followed by a close of the net-zero account
		"2020-01-01 open Assets:A\n2020-01-01 open Assets:Z\n2020-01-01 open Equity:Equity\n\n2020-01-02 \"many\"\n" + func() string {
			var b strings.Builder
			for k := 0; k < 400; k++ {
				b.WriteString("Equity:Equity Assets:A " + []string{"1", "2.50", "1", "0"}[k%4] + " C" + string(rune('A'+k%20)) + "\n")
				b.WriteString("Assets:A Equity:Equity " + []string{"1", "2.50", "1", "0"}[k%4] + " C" + string(rune('A'+k%20)) + "\n")
			}
			return b.String()
		}() + "\n2020-01-02 close Assets:A\n",
		// prices with more decimals than the 8 the valuation arithmetic keeps, tiny prices, valued both ways
		"2020-01-01 open Assets:A\n2020-01-01 open Equity:Equity\n\n2020-01-01 price SHIB 0.0000000123 CHF\n2020-01-01 price ETH 1234.567891234567 CHF\n2020-01-03 price DUST 0.000000004 ETH\n\n2020-01-02 \"x\"\nEquity:Equity Assets:A 5 CHF\nEquity:Equity Assets:A 1000000 SHIB\nEquity:Equity Assets:A 2 ETH\n\n2020-01-04 \"y\"\nEquity:Equity Assets:A 7 DUST\n",
		"2020-01-01 open Assets:A\n2020-01-01 open Equity:Equity\n\n2020-01-01 price USD 0.912345678901 CHF\n2020-01-01 price CHF 1.0000000001 EUR\n\n2020-01-02 \"x\"\nEquity:Equity Assets:A 100 USD\nEquity:Equity Assets:A 100 EUR\n",
	}
	return js
}
