package props

import (
	"fmt"
	"math/rand"
	"os"
	"path/filepath"
	"strings"
	"time"

	"kv/core"
	"kv/kj"
	"kv/obs"
)

// C01: every complete report nets to zero.
func C01(c *core.Ctx) {
	c.Set("rule", "random accepted journals (4-11 accounts, 1-3 commodities, accruals, zero/negative amounts; valued ones in the exact price regime) x random window/interval/last/diff/close/valuation flags, no filter or hiding; distinct by (journal, argv) hash; non-trivial = report succeeded with >= 2 data rows and a Delta row")
	c.Trusted("TLC + Json module", "kj renderer", "text-table reader + decimal->scaled-integer normaliser")
	for _, fam := range []string{"unvalued", "valued", "close"} {
		c.MC("MC_Ledger", c.TierCfg("MC_Ledger_"+fam), 16, 60*time.Minute)
	}
	rng := rand.New(rand.NewSource(c.Seed))
	var bcs []balCase
	n := c.Pick(300, 4000)
	for i := 0; i < n; i++ {
		valued := i%2 == 1
		j := kj.Random(rng, kj.GenOpts{Valued: valued, Accruals: !valued, MaxDirs: 12}, 18262+rng.Intn(60))
		for k := 0; k < 2; k++ {
			bcs = append(bcs, balCase{J: j, F: randomFlags(rng, j, flagOpts{Valued: valued, Mapping: len(bcs)%3 == 2, NoHide: true})})
		}
	}
	runBalance(c, "C01", bcs, 1, func(cs map[string]any) bool {
		rows := rowsOf(cs)
		return len(rows) >= 4
	})
	c01free(c, rng)
	c01stages(c, rng)
	for _, fam := range []string{"unvalued", "valued", "close"} {
		ledgerGen(c, fam, c.Pick(700, 30000))
	}
}

func canon(s string) (string, int) {
	sg := 1
	if strings.HasPrefix(s, "-") {
		sg, s = -1, s[1:]
	}
	if strings.Contains(s, ".") {
		s = strings.TrimRight(strings.TrimRight(s, "0"), ".")
	}
	if s == "0" || s == "" {
		return "0", 0
	}
	return s, sg
}

// c01stages: the verif hook records every transaction of every day after every pipeline stage of
// the real `knut balance` run; TLC checks the pair invariant at each of those points and that no
// stage drops or alters a booking (C01's mechanism, observed on the real execution).
func c01stages(c *core.Ctx, rng *rand.Rand) {
	bin := c.Knut("verif")
	dir := filepath.Join(c.Work, "c01stages")
	os.MkdirAll(dir, 0o755)
	n := c.Pick(120, 1500)
	type job struct {
		j *kj.Journal
		f *kj.Flags
	}
	jobs := make([]job, n)
	for i := range jobs {
		valued := i%3 != 0
		j := kj.Random(rng, kj.GenOpts{Valued: valued, Accruals: !valued, MaxDirs: 8, DensePrices: i%2 == 0}, 18262+rng.Intn(60))
		if valued && i%2 == 0 { // free regime
			j.QS = 100
			for k := range j.Dirs {
				switch j.Dirs[k].K {
				case "price":
					j.Dirs[k].P = 1000 + rng.Intn(30000)
				case "trx":
					bk := append([]kj.Booking(nil), j.Dirs[k].Bk...)
					for b := range bk {
						bk[b].Q = bk[b].Q*100 + rng.Intn(100)
					}
					j.Dirs[k].Bk = bk
				}
			}
		}
		jobs[i] = job{j, randomFlags(rng, j, flagOpts{Valued: valued, Mapping: i%4 == 1})}
	}
	run := func(i int) map[string]any {
		d := filepath.Join(dir, fmt.Sprintf("s%d", i))
		os.RemoveAll(d)
		os.MkdirAll(d, 0o755)
		defer os.RemoveAll(d)
		text := jobs[i].j.Render()
		os.WriteFile(filepath.Join(d, "j.knut"), []byte(text), 0o644)
		trace := filepath.Join(d, "trace.ndjson")
		args := append(append([]string{"balance", "--color=false"}, jobs[i].f.Args()...), "j.knut")
		r := core.Run(core.RunOpts{Dir: d, Timeout: 60 * time.Second, Env: []string{"VERIF_TRACE=" + trace, fmt.Sprintf("VERIF_SCHED_SEED=%d", i)}}, bin, args...)
		evs, _ := readHookTrace(trace)
		days := map[string]int{}
		events := []any{}
		for _, e := range evs {
			if e.Ev != "StageDay" {
				continue
			}
			if _, ok := days[e.Day]; !ok {
				days[e.Day] = len(days) + 1
			}
			trx := []any{}
			for _, t := range e.Trx {
				ps := []any{}
				for _, p := range t {
					m := p.(map[string]any)
					qa, qsg := canon(fmt.Sprint(m["q"]))
					va, vsg := canon(fmt.Sprint(m["v"]))
					ps = append(ps, map[string]any{"a": m["a"], "o": m["o"], "c": m["c"], "qa": qa, "qsg": qsg, "va": va, "vsg": vsg})
				}
				trx = append(trx, ps)
			}
			events = append(events, map[string]any{"stage": e.Stage, "of": e.Of, "d": days[e.Day], "trx": trx, "sorted": false})
		}
		return map[string]any{"id": 3000000 + i, "kind": "stages", "events": events, "exit": r.Exit, "argv": strings.Join(args, " "), "text": text, "stderr": r.Stderr}
	}
	cases := make([]map[string]any, n)
	core.Parallel(n, func(i int) { cases[i] = run(i) })
	nev := 0
	for _, cs := range cases {
		nev += len(cs["events"].([]any))
	}
	c.Add("evaluations", n)
	c.Add("stage_day_events_validated", nev)
	c.JudgeAndReport("Trace_Ledger", "Trace_Ledger.cfg", cases, 16,
		func(old map[string]any) map[string]any { return run(old["id"].(int) - 3000000) },
		func(cs map[string]any) (string, string) {
			return "C01:stages-" + fmt.Sprint(cs["why"]), fmt.Sprintf("knut %v (verif hook trace): %v\n--- journal\n%v\n%v", cs["argv"], cs["why"], cs["text"], cs["stderr"])
		})
}

// c01free: valued reports outside the model's integer regime (2-decimal quantities, arbitrary
// 4-decimal prices, inverse and chained: the 8-decimal truncation bites on every posting).
// Only C01's own statement is judged: all Delta cells are zero, digit by digit.
func c01free(c *core.Ctx, rng *rand.Rand) {
	knut := c.Knut("")
	dir := filepath.Join(c.Work, "c01free")
	os.MkdirAll(dir, 0o755)
	n := c.Pick(200, 3000)
	type job struct {
		j *kj.Journal
		f *kj.Flags
	}
	jobs := make([]job, n)
	for i := range jobs {
		j := kj.Random(rng, kj.GenOpts{Valued: true, Accruals: true, AltQuotes: i%3 == 0, MaxDirs: 12, DensePrices: i%2 == 0}, 18262+rng.Intn(60))
		j.QS = 100
		for k := range j.Dirs {
			switch j.Dirs[k].K {
			case "price":
				j.Dirs[k].P = 1000 + rng.Intn(30000)
			case "trx":
				bk := append([]kj.Booking(nil), j.Dirs[k].Bk...)
				for b := range bk {
					bk[b].Q = bk[b].Q*100 + rng.Intn(100)
				}
				j.Dirs[k].Bk = bk
			}
		}
		f := randomFlags(rng, j, flagOpts{Valued: true})
		f.V = []string{"CHF", "USD", "AAPL"}[rng.Intn(3)]
		jobs[i] = job{j, f}
	}
	run := func(i int) map[string]any {
		file := filepath.Join(dir, fmt.Sprintf("f%d.knut", i))
		text := jobs[i].j.Render()
		os.WriteFile(file, []byte(text), 0o644)
		defer os.Remove(file)
		args := append([]string{"balance", "--color=false", "--digits", "8"}, jobs[i].f.Args()...)
		r := core.Run(core.RunOpts{Timeout: 60 * time.Second}, knut, append(args, file)...)
		o := map[string]any{"exit": r.Exit, "bad": false, "delta": []any{}}
		if r.Exit == 0 {
			t, err := obs.ParseBalanceText(r.Stdout)
			if err != nil {
				o["bad"] = true
			} else {
				rows := []any{}
				for _, row := range t.Rows {
					if row.Section != "Delta" {
						continue
					}
					cells := []any{}
					for _, cell := range row.Cells {
						ds := []any{}
						for _, ch := range cell {
							if ch >= '0' && ch <= '9' {
								ds = append(ds, int(ch-'0'))
							}
						}
						cells = append(cells, ds)
					}
					rows = append(rows, cells)
				}
				o["delta"] = rows
			}
		}
		return map[string]any{"id": 2000000 + i, "kind": "delta", "obs": o, "argv": strings.Join(args, " "), "text": text, "stdout": r.Stdout, "stderr": r.Stderr}
	}
	cases := make([]map[string]any, n)
	core.Parallel(n, func(i int) { cases[i] = run(i) })
	ok := 0
	for _, cs := range cases {
		if cs["obs"].(map[string]any)["exit"] == 0 {
			ok++
		}
	}
	c.Add("evaluations", n)
	c.Add("free_regime_reports", ok)
	c.JudgeAndReport("Trace_Ledger", "Trace_Ledger.cfg", cases, 8,
		func(old map[string]any) map[string]any { return run(old["id"].(int) - 2000000) },
		func(cs map[string]any) (string, string) {
			return "C01:free-regime-" + fmt.Sprint(cs["why"]), fmt.Sprintf("knut %v\n%v\n%v\n--- journal\n%v", cs["argv"], cs["stdout"], cs["stderr"], cs["text"])
		})
}
