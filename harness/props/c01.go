package props

import (
	"math/rand"
	"time"

	"kv/core"
	"kv/kj"
)

// C01: every complete report nets to zero.
func C01(c *core.Ctx) {
	c.Set("rule", "random accepted journals (4-11 accounts, 1-3 commodities, accruals, zero/negative amounts; valued ones in the exact price regime) x random window/interval/last/diff/close/valuation flags, no filter or hiding; distinct by (journal, argv) hash; non-trivial = report succeeded with >= 2 data rows and a Delta row")
	c.Trusted("TLC + Json module", "kj renderer", "text-table reader + decimal->scaled-integer normaliser")
	for _, fam := range []string{"unvalued", "valued", "close"} {
		c.MC("MC_Ledger", c.TierCfg("MC_Ledger_"+fam), 16, 60*time.Minute)
	}
	rng := rand.New(rand.NewSource(c.Seed))
	var bcs []balCase
	n := c.Pick(300, 4000)
	for i := 0; i < n; i++ {
		valued := i%2 == 1
		j := kj.Random(rng, kj.GenOpts{Valued: valued, Accruals: !valued, MaxDirs: 12}, 18262+rng.Intn(60))
		for k := 0; k < 2; k++ {
			bcs = append(bcs, balCase{J: j, F: randomFlags(rng, j, flagOpts{Valued: valued})})
		}
	}
	runBalance(c, "C01", bcs, 1, func(cs map[string]any) bool {
		rows := rowsOf(cs)
		return len(rows) >= 4
	})
}
