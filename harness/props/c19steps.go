package props

import (
	"bytes"
	"encoding/json"
	"fmt"
	"regexp"
	"sort"
	"strconv"
	"time"

	"kv/core"
)

// stepRun is one Journal.Process call as recorded by the hooks: ProcessStart (stages, days),
// the StageDay events in logging order, ProcessEnd (failed).
type stepRun struct {
	Case   int // case id
	Idx    int // run index within the case (0-based)
	Of     int
	Days   int
	Failed bool
	Ev     []map[string]any // [s, d, err]
}

var reHighWater = regexp.MustCompile(`HIGHWATER (\d+)`)

const hwBase = 100000

// validateSteps checks every run step by step against Pipeline.tla (Trace_PipelineSteps): runs with the
// same (stages, days) are concatenated into one TLC run; a rejected group is bisected by its high-water
// mark.  Returns, per (case, run index), "" (accepted) or a description of where the match stopped.
func validateSteps(c *core.Ctx, runs []stepRun) map[[2]int]string {
	verdict := map[[2]int]string{}
	groups := map[[2]int][]stepRun{}
	for _, r := range runs {
		k := [2]int{r.Of, r.Days}
		groups[k] = append(groups[k], r)
	}
	var keys [][2]int
	for k := range groups {
		keys = append(keys, k)
	}
	sort.Slice(keys, func(a, b int) bool { return keys[a][0]*1000+keys[a][1] < keys[b][0]*1000+keys[b][1] })
	type res struct {
		k [2]int
		v map[[2]int]string
	}
	out := make([]res, len(keys))
	core.Parallel(len(keys), func(i int) {
		g := groups[keys[i]]
		v := map[[2]int]string{}
		for len(g) > 0 {
			batch := g
			if len(batch) > 150 {
				batch = g[:150]
			}
			var b bytes.Buffer
			for n, r := range batch {
				line, _ := json.Marshal(map[string]any{"id": n + 1, "of": r.Of, "nd": r.Days, "failed": r.Failed, "ev": r.Ev})
				b.Write(line)
				b.WriteByte('\n')
			}
			t := c.TLC(core.TLCOpts{Spec: "Trace_PipelineSteps", Cfg: "Trace_PipelineSteps.cfg", Files: map[string][]byte{"runs.ndjson": b.Bytes()}, Workers: 1, Timeout: 10 * time.Minute, Heap: "2g", DFS: true})
			if t.Violated == "NotAllAccepted" { // the state "all runs accepted" was reached
				g = g[len(batch):]
				continue
			}
			if t.Violated == "Safe" {
				// an invariant of the specification failed along a matched prefix
				for _, r := range batch {
					v[[2]int{r.Case, r.Idx}] = "an invariant of Pipeline.tla fails along the recorded run (or one concatenated with it)"
				}
				g = g[len(batch):]
				continue
			}
			if t.Violated != "" || t.TimedOut || !t.OK {
				// TLC itself did not finish (time, memory): no verdict about these runs - inconclusive, never a rejection
				c.Infra("step validation of %d runs (%d stages, %d days) did not complete: violated=%q timedOut=%v %s", len(batch), keys[i][0], keys[i][1], t.Violated, t.TimedOut, tailStr(t.ErrorText, 200))
				g = g[len(batch):]
				continue
			}
			hw := 0
			if m := reHighWater.FindStringSubmatch(t.Out); m != nil {
				hw, _ = strconv.Atoi(m[1])
			}
			rr, l := hw/hwBase, hw%hwBase
			if rr < 1 || rr > len(batch) {
				for _, r := range batch {
					v[[2]int{r.Case, r.Idx}] = "step validation rejected the group and gave no position"
				}
				g = g[len(batch):]
				continue
			}
			bad := batch[rr-1]
			if l > len(bad.Ev) {
				v[[2]int{bad.Case, bad.Idx}] = fmt.Sprintf("all %d logged steps are matched, but no behaviour of Pipeline.tla then terminates with the observed result (failed=%v)", len(bad.Ev), bad.Failed)
			} else {
				v[[2]int{bad.Case, bad.Idx}] = fmt.Sprintf("no behaviour of Pipeline.tla performs logged step %d %v after the %d steps before it", l, bad.Ev[l-1], l-1)
			}
			g = g[rr:] // the runs before it were accepted; go on after it
		}
		out[i] = res{keys[i], v}
	})
	for _, o := range out {
		for k, s := range o.v {
			verdict[k] = s
		}
	}
	return verdict
}
