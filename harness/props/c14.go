package props

import (
	"encoding/json"
	"fmt"
	"math/rand"
	"os"
	"os/exec"
	"path/filepath"
	"strings"
	"syscall"
	"time"

	"kv/core"
	"kv/kj"
)

type cmdScenario struct {
	Sc struct {
		Graph   string `json:"graph"`
		Content string `json:"content"`
		Where   string `json:"where"`
		Cmd     string `json:"cmd"`
		Flags   string `json:"flags"`
	} `json:"sc"`
	MustFail bool `json:"mustFail"`
	Report   bool `json:"report"`
}

const c14Base = `2020-01-01 open Assets:Bank
2020-01-01 open Assets:Portfolio
2020-01-01 open Equity:Equity
2020-01-01 open Expenses:Food
2020-01-01 open Expenses:TBD
2020-01-01 open Income:Salary

2020-01-01 price USD 0.9 CHF
2020-02-01 price USD 0.95 CHF

2020-01-05 "salary"
Income:Salary Assets:Bank 1000 CHF

2020-01-20 "buy dollars"
Assets:Bank Assets:Portfolio 100 USD

2020-02-03 "food"
Assets:Bank Expenses:TBD 50 CHF
`

func contentOf(class string, rng *rand.Rand) string {
	switch class {
	case "valid":
		return "2020-02-10 \"more food\"\nAssets:Bank Expenses:Food 12.50 CHF\n"
	case "empty":
		return ""
	case "syntax":
		return "2020-02-10 \"unterminated\nAssets:Bank Expenses:Food 12.50\n"
	case "model":
		return "2020-02-10 \"bad account type\"\nAsset:Bank Expenses:Food 12.50 CHF\n"
	case "lifecycle":
		return "2020-02-10 \"unopened\"\nAssets:Bank Expenses:NeverOpened 12.50 CHF\n"
	case "noprice":
		return "2020-02-10 \"gold\"\nEquity:Equity Assets:Portfolio 2 XAU\n"
	case "accrualInverted":
		return "@accrue monthly 2020-06-01 2020-01-01 Assets:Portfolio\n2020-02-10 \"inverted accrual window\"\nAssets:Bank Expenses:Food 120 CHF\n"
	case "accrualUnopened": // the postings generated for the accrual periods hit an account that was never opened
		return "@accrue monthly 2020-01-01 2020-03-31 Assets:NeverOpened\n2020-02-10 \"accrual through an unopened account\"\nAssets:Bank Expenses:Food 120 CHF\n"
	case "zeroPrice": // rejected by valuation only; every command must still terminate cleanly on it
		return "2020-02-10 price XAU 0 CHF\n2020-02-11 price USD 0.0 CHF\n"
	case "year1":
		return "0001-01-01 \"dawn of time\"\nEquity:Equity Assets:Bank 1 CHF\n"
	case "binary":
		b := make([]byte, 200)
		rng.Read(b)
		return string(b)
	}
	return ""
}

// materialise writes the scenario's files and returns argv.
func materialise(dir string, s *cmdScenario, rng *rand.Rand) []string {
	fault := contentOf(s.Sc.Content, rng)
	root := c14Base
	files := map[string]string{}
	leaf := "2020-02-11 \"leaf\"\nAssets:Bank Expenses:Food 1 CHF\n"
	if s.Sc.Content == "noTransactions" {
		root = "2020-01-01 open Assets:Bank\n2020-01-01 open Expenses:Food\n2020-01-01 open Equity:Equity\n"
		leaf = ""
	} else if s.Sc.Where == "leaf" {
		leaf = fault
	} else {
		root += "\n" + fault + "\n"
	}
	switch s.Sc.Graph {
	case "chain":
		root = "include \"sub/a.knut\"\n\n" + root
		files["sub/a.knut"] = "include \"deep/leaf.knut\"\n\n2020-02-12 \"a\"\nAssets:Bank Expenses:Food 2 CHF\n"
		files["sub/deep/leaf.knut"] = leaf
	case "diamond":
		root = "include \"a.knut\"\ninclude \"b.knut\"\n\n" + root
		files["a.knut"] = "include \"leaf.knut\"\n\n2020-02-12 \"a\"\nAssets:Bank Expenses:Food 2 CHF\n"
		files["b.knut"] = "include \"leaf.knut\"\n\n2020-02-13 \"b\"\nAssets:Bank Expenses:Food 3 CHF\n"
		files["leaf.knut"] = leaf
	case "wide":
		// 12 x 12 files: many parse tasks in flight at once
		var inc strings.Builder
		for a := 0; a < 12; a++ {
			fmt.Fprintf(&inc, "include \"y%d/index.knut\"\n", a)
			var mb strings.Builder
			for b := 0; b < 12; b++ {
				fmt.Fprintf(&mb, "include \"m%d.knut\"\n", b)
				files[fmt.Sprintf("y%d/m%d.knut", a, b)] = fmt.Sprintf("2020-02-%02d \"leaf %d %d\"\nAssets:Bank Expenses:Food %d CHF\n", 1+b, a, b, 1+a+b)
			}
			files[fmt.Sprintf("y%d/index.knut", a)] = mb.String()
		}
		files["y7/m5.knut"] = leaf
		root = inc.String() + "\n" + root
	case "self":
		root = "include \"main.knut\"\n\n" + root
	case "cycle2":
		root = "include \"a.knut\"\n\n" + root
		files["a.knut"] = "include \"main.knut\"\n\n2020-02-12 \"a\"\nAssets:Bank Expenses:Food 2 CHF\n"
	case "missing":
		root = "include \"no/such/file.knut\"\n\n" + root
	case "dirtarget":
		root = "include \"adir\"\n\n" + root
		os.MkdirAll(filepath.Join(dir, "adir"), 0o755)
	}
	files["main.knut"] = root
	files["train.knut"] = "2020-01-01 open Assets:Bank\n2020-01-01 open Expenses:Food\n\n2020-01-02 \"food\"\nAssets:Bank Expenses:Food 3 CHF\n"
	for p, c := range files {
		full := filepath.Join(dir, p)
		os.MkdirAll(filepath.Dir(full), 0o755)
		os.WriteFile(full, []byte(c), 0o644)
	}
	var win []string
	switch s.Sc.Flags {
	case "inverted":
		win = []string{"--from", "2020-09-01", "--to", "2020-01-01", []string{"--months", "--weeks", "--days", "--years", "--quarters"}[rng.Intn(5)]}
	case "lastNeg":
		win = []string{"--last", "-3", "--weeks"}
	case "lastZero":
		win = []string{"--last", "0", "--days", "--to", "2020-02-20"}
	}
	switch s.Sc.Flags {
	case "mapNeg":
		win = []string{"-m", "-1,."}
	case "mapSuffixNeg":
		win = []string{"-m", "1:-1,."}
	case "digitsNeg":
		win = []string{"--digits", "-3"}
	case "digitsHuge": // the extreme values the flag type admits
		win = []string{"--digits", "2147483647"}
	case "digitsMin":
		win = []string{"--digits", "-2147483648"}
	case "lastHuge":
		win = []string{"--last", "9223372036854775807", "--days"}
	case "remapNew": // the swapped counterparts (Liabilities:Bank, Income:Food) occur nowhere in the journal
		win = []string{"--remap", "Bank|Food"}
	case "remapAll":
		win = []string{"--remap", ".", "-m", "1,^(Assets|Liabilities)"}
	case "filters":
		win = []string{"--account", "^(Assets|Expenses)", "--commodity", "CHF|USD", "--diff", "--months"}
	}
	v := []string{"-v", "CHF"}
	switch s.Sc.Flags {
	case "unknownV":
		v = []string{"-v", "ZZZ"}
	case "noV":
		v = nil
	}
	switch s.Sc.Cmd {
	case "check":
		return []string{"check", "main.knut"}
	case "checkwrite":
		return []string{"check", "--write", "main.knut"}
	case "balance":
		return append(append([]string{"balance", "--color=false"}, win...), "main.knut")
	case "balanceV":
		return append(append(append([]string{"balance", "--color=false"}, v...), win...), "main.knut")
	case "print":
		return []string{"print", "main.knut"}
	case "format":
		return []string{"format", "main.knut"}
	case "infer":
		if s.Sc.Where == "root" || s.Sc.Graph != "single" {
			// the faulty journal as the training file (loaded recursively), a sound target
			os.WriteFile(filepath.Join(dir, "target.knut"), []byte("2020-03-01 \"food\"\nAssets:Bank Expenses:TBD 4 CHF\n"), 0o644)
			return []string{"infer", "-t", "main.knut", "target.knut"}
		}
		return []string{"infer", "-t", "train.knut", "main.knut"}
	case "transcode":
		return append(append([]string{"transcode"}, v...), "main.knut")
	case "returns":
		return append(append(append([]string{"portfolio", "returns"}, v...), win...), "main.knut")
	case "weights":
		return append(append(append([]string{"portfolio", "weights", "--color=false"}, v...), win...), "main.knut")
	}
	return nil
}

func runC14(bin, root string, id int, s *cmdScenario, seed int64) map[string]any {
	dir := filepath.Join(root, fmt.Sprintf("c%d", id))
	os.RemoveAll(dir)
	os.MkdirAll(dir, 0o755)
	defer os.RemoveAll(dir)
	argv := materialise(dir, s, rand.New(rand.NewSource(seed+int64(id))))
	// address-space and thread limits: exhausting them is a violation, not a machine problem
	full := append([]string{"--as=6442450944", "--nproc=2000", bin}, argv...)
	r := core.Run(core.RunOpts{Dir: dir, Timeout: 20 * time.Second, Env: []string{"GOMAXPROCS=4"}}, "prlimit", full...)
	oom := strings.Contains(r.Stderr, "out of memory") || strings.Contains(r.Stderr, "pthread_create failed") || strings.Contains(r.Stderr, "cannot allocate memory") || strings.Contains(r.Stderr, "failed to create new OS thread")
	pan := !oom && (strings.Contains(r.Stderr, "panic:") || strings.Contains(r.Stderr, "goroutine ") || strings.Contains(r.Stderr, "fatal error:") || r.Exit == 2 && strings.Contains(r.Stderr, "runtime."))
	return map[string]any{"id": id, "mustFail": s.MustFail, "report": s.Report, "exit": r.Exit, "timedOut": r.TimedOut, "panicked": pan, "oom": oom,
		"stdoutEmpty": r.Stdout == "", "stderrEmpty": strings.TrimSpace(r.Stderr) == "", "scenario": s.Sc, "argv": strings.Join(argv, " "), "stderr": tailStr(r.Stderr, 1500), "stdout": tailStr(r.Stdout, 600)}
}

func C14(c *core.Ctx) {
	c.Ev.Level = "fault_enumeration"
	c.Set("rule", "scenario = include graph (single, chain of 3 with sub-directories, diamond, self-include, 2-cycle, missing target, directory as target) x content class of one file (valid, empty, syntax error, invalid account type, unopened account, missing price, inverted accrual window, accrual through an unopened account, year-1 date, binary garbage) x its position (root / deepest leaf) x command (check, check --write, balance, balance -v, print, format, infer, transcode, portfolio returns, portfolio weights) x flag class (none, inverted window, --last negative / zero / MaxInt64, --digits negative / MaxInt32 / MinInt32, unknown valuation commodity, valuation flag absent); enumerated by TLC from Command.tla; non-trivial = scenario with at least one fault")
	c.Trusted("TLC + Json module", "prlimit (address space 6 GiB, 2000 threads), 20 s timeout", "stderr classifier (panic / out of memory / diagnostic)")
	c.MC("Command", "MC_Command.cfg", 8, 10*time.Minute)
	c.MC("Loader", c.TierCfg("MC_Loader"), 16, 30*time.Minute)
	r := c.TLC(core.TLCOpts{Spec: "Command", Cfg: "MC_Command_gen.cfg", Workers: 4, Timeout: 10 * time.Minute})
	var scs []cmdScenario
	for _, ln := range r.Printed {
		u := core.Unquote(ln)
		if !strings.HasPrefix(u, "CASE ") {
			continue
		}
		var s cmdScenario
		if err := json.Unmarshal([]byte(u[5:]), &s); err != nil {
			c.Infra("bad scenario: %v", err)
			return
		}
		scs = append(scs, s)
	}
	if len(scs) == 0 {
		c.Infra("no scenarios generated: %s", r.ErrorText)
		return
	}
	c.Set("scenarios_generated_by_TLC", len(scs))
	if !core.Thorough(c) {
		rg := rand.New(rand.NewSource(c.Seed))
		rg.Shuffle(len(scs), func(a, b int) { scs[a], scs[b] = scs[b], scs[a] })
		// stratified: one scenario of every (content, position, command) with the plain graph and no
		// fault in the flags is always in the sample
		seen := map[string]bool{}
		var first, rest []cmdScenario
		for _, s := range scs {
			k := s.Sc.Content + "|" + s.Sc.Where + "|" + s.Sc.Cmd
			if s.Sc.Graph == "single" && s.Sc.Flags == "none" && !seen[k] {
				seen[k] = true
				first = append(first, s)
			} else {
				rest = append(rest, s)
			}
		}
		scs = append(first, rest...)
		scs = scs[:700]
	}
	bin := c.Knut("")
	root := filepath.Join(c.Work, "c14")
	os.MkdirAll(root, 0o755)
	cases := make([]map[string]any, len(scs))
	core.Parallel(len(scs), func(i int) { cases[i] = runC14(bin, root, i+1, &scs[i], c.Seed) })
	nt := 0
	for i := range scs {
		if scs[i].Sc.Content != "valid" || scs[i].Sc.Graph != "single" || scs[i].Sc.Flags != "none" {
			nt++
		}
	}
	// (V) byte-level mutations of a valid journal through every command: clean behaviour only
	type mut struct {
		text string
		argv []string
		rep  bool
	}
	mrng := rand.New(rand.NewSource(c.Seed + 5))
	nm := c.Pick(400, 6000)
	muts := make([]mut, nm)
	cmdPool := []struct {
		argv []string
		rep  bool
	}{{[]string{"check"}, false}, {[]string{"check", "--write"}, true}, {[]string{"balance", "--color=false"}, true}, {[]string{"balance", "--color=false", "-v", "CHF", "--months"}, true},
		{[]string{"print"}, true}, {[]string{"format"}, false}, {[]string{"transcode", "-v", "CHF"}, true}, {[]string{"portfolio", "returns", "-v", "CHF", "--months"}, false},
		{[]string{"portfolio", "weights", "-v", "CHF", "--color=false"}, false}, {[]string{"balance", "--color=false", "--weeks", "--last", "2", "--diff"}, true}}
	for k := range muts {
		cp := cmdPool[mrng.Intn(len(cmdPool))]
		muts[k] = mut{text: mutate(mrng, c14Base+"\n@accrue monthly 2020-01-01 2020-06-30 Assets:Portfolio\n2020-02-15 \"insurance\"\nAssets:Bank Expenses:Food 120 CHF\n"), argv: cp.argv, rep: cp.rep}
		if k%2 == 1 {
			// random well-formed journals (valued, accruals, unusual but legal names: non-ASCII, lower-case and
			// digit-initial segments), unchanged or mutated
			j := kj.Random(mrng, kj.GenOpts{Valued: true, Accruals: k%4 == 1, MaxDirs: 12}, 18262+mrng.Intn(40))
			muts[k].text = j.Render()
			if k%4 == 3 {
				muts[k].text = mutate(mrng, muts[k].text)
			}
		}
	}
	// hand-written journals from the odd corners of the valid input space through every command
	for _, t := range oddJournals() {
		for _, cp := range cmdPool {
			muts = append(muts, mut{text: t, argv: cp.argv, rep: cp.rep})
		}
	}
	nm = len(muts)
	mcases := make([]map[string]any, nm)
	core.Parallel(nm, func(k int) {
		dir := filepath.Join(root, fmt.Sprintf("m%d", k))
		os.MkdirAll(dir, 0o755)
		defer os.RemoveAll(dir)
		os.WriteFile(filepath.Join(dir, "main.knut"), []byte(muts[k].text), 0o644)
		full := append(append([]string{"--as=6442450944", "--nproc=2000", bin}, muts[k].argv...), "main.knut")
		r := core.Run(core.RunOpts{Dir: dir, Timeout: 20 * time.Second, Env: []string{"GOMAXPROCS=4"}}, "prlimit", full...)
		oom := strings.Contains(r.Stderr, "out of memory") || strings.Contains(r.Stderr, "pthread_create failed") || strings.Contains(r.Stderr, "cannot allocate memory")
		pan := !oom && (strings.Contains(r.Stderr, "panic:") || strings.Contains(r.Stderr, "goroutine ") || strings.Contains(r.Stderr, "fatal error:"))
		mcases[k] = map[string]any{"id": 7000000 + k, "mustFail": false, "report": muts[k].rep, "exit": r.Exit, "timedOut": r.TimedOut, "panicked": pan, "oom": oom,
			"stdoutEmpty": r.Stdout == "", "stderrEmpty": strings.TrimSpace(r.Stderr) == "", "argv": strings.Join(muts[k].argv, " "), "text": muts[k].text, "stderr": tailStr(r.Stderr, 1500), "stdout": tailStr(r.Stdout, 400)}
	})
	c.Add("evaluations", nm)
	c.Add("mutated_journals", nm)
	c.JudgeAndReport("Trace_Command", "Trace_Command.cfg", mcases, 8, nil, func(cs map[string]any) (string, string) {
		return fmt.Sprintf("clean-mutation:%v", cs["why"]), fmt.Sprintf("knut %v on a mutated journal: %v (exit %v)\nstderr:\n%v\nstdout:\n%v\n--- journal\n%q", cs["argv"], cs["why"], cs["exit"], cs["stderr"], cs["stdout"], cs["text"])
	})
	c14dag(c, bin, root)
	c.Add("evaluations", len(cases))
	c.Add("distinct_nontrivial", nt)
	c.Sample(map[string]any{"scenario": cases[0]["scenario"], "argv": cases[0]["argv"], "exit": cases[0]["exit"], "stderr": cases[0]["stderr"]})
	c.JudgeAndReport("Trace_Command", "Trace_Command.cfg", cases, 8,
		func(old map[string]any) map[string]any {
			return runC14(bin, root, old["id"].(int), &scs[old["id"].(int)-1], c.Seed)
		},
		func(cs map[string]any) (string, string) {
			s := cs["scenario"].(struct {
				Graph   string `json:"graph"`
				Content string `json:"content"`
				Where   string `json:"where"`
				Cmd     string `json:"cmd"`
				Flags   string `json:"flags"`
			})
			sig := fmt.Sprintf("clean:%v", cs["why"])
			switch {
			case s.Graph == "self" || s.Graph == "cycle2":
				sig = "D6:include-cycle"
			case s.Content == "accrualInverted" && cs["why"] == "panic":
				sig = "D13b:inverted-accrual-window-panics"
			case s.Content == "year1" && cs["why"] == "panic":
				sig = "D13c:year-1-date-panics"
			case s.Flags == "noV" && cs["why"] == "panic":
				sig = "D13a:valuation-flag-absent-panics:" + s.Cmd
			}
			return sig, fmt.Sprintf("scenario %+v\nknut %v\nexit=%v timedOut=%v\nstderr:\n%v\nstdout:\n%v", s, cs["argv"], cs["exit"], cs["timedOut"], cs["stderr"], cs["stdout"])
		})
}

// c14dag: an acyclic include graph in which every file includes the next one twice (17 files, about 600 bytes):
// the loader must not need memory that is exponential in the depth.
func c14dag(c *core.Ctx, bin, root string) {
	dir := filepath.Join(root, "dag")
	os.RemoveAll(dir)
	os.MkdirAll(dir, 0o755)
	defer os.RemoveAll(dir)
	const depth = 16
	files := map[string]string{}
	for i := 0; i < depth; i++ {
		files[fmt.Sprintf("f%d.knut", i)] = fmt.Sprintf("include \"f%d.knut\"\ninclude \"./f%d.knut\"\n", i+1, i+1)
	}
	files[fmt.Sprintf("f%d.knut", depth)] = "2020-01-02 \"t\"\nAssets:A Assets:B 1 CHF\n"
	for n, t := range files {
		os.WriteFile(filepath.Join(dir, n), []byte(t), 0o644)
	}
	cmd := exec.Command(bin, "check", "f0.knut")
	cmd.Dir = dir
	cmd.Env = append(os.Environ(), "GOMAXPROCS=4")
	done := make(chan error, 1)
	if err := cmd.Start(); err != nil {
		c.Infra("include dag: %v", err)
		return
	}
	go func() { done <- cmd.Wait() }()
	select {
	case <-done:
	case <-time.After(120 * time.Second):
		cmd.Process.Kill()
		<-done
	}
	rss := int64(0)
	if ru, ok := cmd.ProcessState.SysUsage().(*syscall.Rusage); ok {
		rss = ru.Maxrss // KiB
	}
	c.Set("include_dag_depth16_peak_rss_mib", rss/1024)
	if rss > 1024*1024 {
		c.Violate("memory:include-dag-exponential", fmt.Sprintf("knut check on an acyclic include graph of %d files (%d bytes in total; each file includes the next one twice) needs %d MiB of memory: the work doubles with every level", depth+1, 600, rss/1024), files)
	}
}
