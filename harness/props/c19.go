package props

import (
	"bufio"
	"bytes"
	"encoding/json"
	"fmt"
	"math/rand"
	"os"
	"path"
	"path/filepath"
	"sort"
	"strconv"
	"strings"
	"time"

	"kv/core"
	"kv/kj"
)

type hookEvent struct {
	Ev     string  `json:"ev"`
	Seq    int     `json:"seq"`
	Run    int     `json:"run"`
	Stage  int     `json:"stage"`
	Of     int     `json:"of"`
	Day    string  `json:"day"`
	Trx    [][]any `json:"trx"`
	Err    *string `json:"err"`
	Path   string  `json:"path"`
	N      int     `json:"n"`
	Syntax int     `json:"syntax"`
	Failed bool    `json:"failed"`
	Days   int     `json:"days"`
	Parent string  `json:"parent"`
}

func readHookTrace(path string) ([]hookEvent, error) {
	f, err := os.Open(path)
	if err != nil {
		return nil, err
	}
	defer f.Close()
	var evs []hookEvent
	sc := bufio.NewScanner(f)
	sc.Buffer(make([]byte, 1<<20), 1<<28)
	for sc.Scan() {
		var e hookEvent
		if err := json.Unmarshal(sc.Bytes(), &e); err != nil {
			return nil, fmt.Errorf("bad trace line: %v", err)
		}
		evs = append(evs, e)
	}
	sort.SliceStable(evs, func(a, b int) bool { return evs[a].Seq < evs[b].Seq })
	return evs, nil
}

type c19Scenario struct {
	ID          int
	Layout      *kj.Layout
	Cmd         []string
	Variant     string
	ExpectFail  bool
	TrxExpected int
	Files       int
	Seed        int
	Procs       int
	// directed replay: the order of the processor callbacks TLC chose, the stdout of the reference run, the model's terminal state
	Schedule  [][2]int
	RefStdout string
	Model     *modelOrder
}

func buildPipelineCase(sc c19Scenario, exit int, timedOut bool, stderr string, evs []hookEvent) map[string]any {
	cs := map[string]any{"id": sc.ID, "exit": exit, "timedOut": timedOut,
		"race":       strings.Contains(stderr, "WARNING: DATA RACE"),
		"ctxErr":     strings.Contains(stderr, "context canceled"),
		"expectFail": sc.ExpectFail, "trxExpected": sc.TrxExpected, "files": sc.Files,
		"variant": sc.Variant, "argv": strings.Join(sc.Cmd, " "), "seed": sc.Seed, "procs": sc.Procs}
	if strings.Contains(stderr, "panic:") || strings.Contains(stderr, "fatal error:") {
		cs["timedOut"] = true // a crash is as bad as a hang for "terminates with an error of a failing stage"
		cs["crash"] = true
	}
	byRun := map[int][]hookEvent{}
	type procInfo struct {
		of, days   int
		start, end bool
		failed     bool
	}
	info := map[int]*procInfo{}
	var runIDs []int
	started, done, failedFiles, synOK, synConv, modConv, modAdded := 0, 0, 0, 0, 0, 0, 0
	for _, e := range evs {
		switch e.Ev {
		case "StageDay":
			if _, ok := byRun[e.Run]; !ok {
				runIDs = append(runIDs, e.Run)
			}
			byRun[e.Run] = append(byRun[e.Run], e)
		case "ProcessStart":
			if _, ok := byRun[e.Run]; !ok {
				runIDs = append(runIDs, e.Run)
				byRun[e.Run] = nil
			}
			info[e.Run] = &procInfo{of: e.Of, days: e.Days, start: true}
		case "ProcessEnd":
			if pi := info[e.Run]; pi != nil {
				pi.end, pi.failed = true, e.Failed
			}
		case "FileStart":
			started++
		case "FileDone":
			done++
			if e.Failed {
				failedFiles++
			} else {
				synOK += e.N
			}
		case "Converted":
			synConv += e.Syntax
			modConv += e.N
		case "Added":
			modAdded += e.N
		}
	}
	cs["load"] = loadRunOf(evs, exit, timedOut)
	sort.Ints(runIDs)
	runs := []any{}
	for _, r := range runIDs {
		es := byRun[r]
		dayset := map[string]bool{}
		for _, e := range es {
			dayset[e.Day] = true
		}
		var days []string
		for d := range dayset {
			days = append(days, d)
		}
		sort.Strings(days)
		idx := map[string]int{}
		for i, d := range days {
			idx[d] = i + 1
		}
		ev := []any{}
		of := 0
		for _, e := range es {
			ev = append(ev, map[string]any{"s": e.Stage, "d": idx[e.Day], "err": e.Err != nil, "ntrx": len(e.Trx)})
			of = e.Of
		}
		run := map[string]any{"of": of, "nd": len(days), "ev": ev, "days": len(days), "failed": false, "complete": false}
		if pi := info[r]; pi != nil {
			run["of"], run["days"], run["failed"], run["complete"] = pi.of, pi.days, pi.failed, pi.start && pi.end
		}
		runs = append(runs, run)
	}
	cs["runs"] = runs
	cs["started"], cs["done"], cs["failedFiles"] = started, done, failedFiles
	cs["synOK"], cs["synConv"], cs["modConv"], cs["modAdded"] = synOK, synConv, modConv, modAdded
	return cs
}

func runC19(c *core.Ctx, bin, root string, sc c19Scenario) map[string]any {
	dir := filepath.Join(root, fmt.Sprintf("p%d", sc.ID))
	os.RemoveAll(dir)
	os.MkdirAll(dir, 0o755)
	defer os.RemoveAll(dir)
	rootFile := sc.Layout.Write(dir)
	trace := filepath.Join(dir, "trace.ndjson")
	env := []string{"VERIF_TRACE=" + trace, fmt.Sprintf("VERIF_SCHED_SEED=%d", sc.Seed), fmt.Sprintf("GOMAXPROCS=%d", sc.Procs), "GORACE=exitcode=0 halt_on_error=0"}
	if sc.Schedule != nil {
		b, _ := json.Marshal(sc.Schedule)
		env = append(env, "VERIF_SCHEDULE="+string(b), "VERIF_GATE_TIMEOUT_MS=8000")
	}
	r := core.Run(core.RunOpts{Dir: dir, Timeout: 60 * time.Second, Env: env}, bin, append(append([]string{}, sc.Cmd...), rootFile)...)
	evs, err := readHookTrace(trace)
	if err != nil && !r.TimedOut {
		evs = nil
	}
	cs := buildPipelineCase(sc, r.Exit, r.TimedOut, r.Stderr, evs)
	cs["stderr"] = tailStr(r.Stderr, 3000)
	forced := map[string]any{"on": sc.Schedule != nil, "abandoned": false, "followed": true, "sameOut": true}
	if sc.Variant == "replay-ref" {
		cs["stdout"] = r.Stdout
	}
	if sc.Schedule != nil {
		got, abandoned := realisedOrder(evs)
		forced["abandoned"] = abandoned
		// a failure-free run performs exactly the scheduled steps; after a failure the real stages may start
		// days the model's behaviour did not (they run once the schedule is exhausted): the schedule is a prefix
		// (and a stage that sees the cancellation earlier than in the model's behaviour never arrives at its
		// scheduled step: the run then ends inside the schedule)
		ok := sc.ExpectFail || len(got) == len(sc.Schedule)
		for k := 0; ok && k < len(sc.Schedule) && k < len(got); k++ {
			ok = got[k] == sc.Schedule[k]
		}
		forced["followed"] = ok
		if sc.ExpectFail {
			forced["sameOut"] = r.Exit != 0 && r.Stdout == ""
		} else {
			forced["sameOut"] = r.Exit == 0 && r.Stdout == sc.RefStdout
		}
		cs["schedule"] = fmt.Sprint(sc.Schedule)
		cs["realised"] = fmt.Sprint(got)
	}
	cs["forced"] = forced
	cs["stepsOK"], cs["steps"] = true, ""
	cs["loadOK"], cs["loadWhy"] = true, ""
	return cs
}

// stepRunsOf extracts the complete Process calls of a case for step-by-step validation.
func stepRunsOf(cs map[string]any) []stepRun {
	var out []stepRun
	if cs["timedOut"] == true {
		return nil
	}
	if f, _ := cs["forced"].(map[string]any); f != nil && f["on"] == true && f["followed"] == true && f["abandoned"] != true && cs["expectFail"] != true && cs["exit"] == 0 {
		// a failure-free run that followed its schedule performed exactly an order that TLC generated from
		// Pipeline.tla, with the model's result: it is a behaviour by construction
		return nil
	}
	for i, r := range cs["runs"].([]any) {
		m := r.(map[string]any)
		if m["complete"] != true {
			continue
		}
		var ev []map[string]any
		for _, e := range m["ev"].([]any) {
			em := e.(map[string]any)
			ev = append(ev, map[string]any{"s": em["s"], "d": em["d"], "err": em["err"]})
		}
		if ev == nil {
			ev = []map[string]any{}
		}
		out = append(out, stepRun{Case: cs["id"].(int), Idx: i, Of: m["of"].(int), Days: m["days"].(int), Failed: m["failed"].(bool), Ev: ev})
	}
	return out
}

// applySteps validates the runs of the given cases against Pipeline.tla and records the verdicts in them.
func applySteps(c *core.Ctx, cases []map[string]any) int {
	var all []stepRun
	for _, cs := range cases {
		all = append(all, stepRunsOf(cs)...)
	}
	v := validateSteps(c, all)
	for _, cs := range cases {
		cs["stepsOK"], cs["steps"] = true, ""
		for i := range cs["runs"].([]any) {
			if msg, bad := v[[2]int{cs["id"].(int), i}]; bad {
				cs["stepsOK"], cs["steps"] = false, fmt.Sprintf("Process call %d: %s", i+1, msg)
				break
			}
		}
	}
	return len(all)
}

func C19(c *core.Ctx) {
	c.ReproRounds = 25 // failures here depend on the goroutine schedule: a rejected run gets 25 chances to fail again
	c.Set("rule", "scenario = random journal split over an include tree of 1-7 files (sub-directories, ../ paths) x command (check, balance, balance -v, print, transcode -v: 1-6 pipeline stages) x fault variant (none, syntax error / invalid account type / missing include in one file, unopened account (check stage fails), missing price (valuation stage fails)) x schedule-perturbation seed x GOMAXPROCS in {1,2,16}, on the -race binary with the verif hooks; non-trivial = the trace shows >= 2 stages active at once (interleaved StageDay events) or >= 2 files in flight at once")
	c.Trusted("Go race detector as observer of unordered memory accesses", "verif hooks (Emit under a mutex with a global sequence number; StageDay emitted by the stage that owns the Day)", "TLC + Json module")
	c.MC("Pipeline", c.TierCfg("MC_Pipeline"), 16, 30*time.Minute)
	if core.Thorough(c) {
		c.MC("Pipeline", "MC_Pipeline_quick.cfg", 16, 30*time.Minute) // 3 x 3 with two failing (stage, item) pairs
	}
	if r := c.TLC(core.TLCOpts{Spec: "Pipeline", Cfg: "MC_Pipeline_hazard.cfg", Workers: 4, Timeout: 5 * time.Minute}); r.Violated != "ErrorIsReal" {
		c.Infra("MC_Pipeline_hazard: cancelling before the error is recorded was expected to violate ErrorIsReal in the model, got %q", r.Violated)
	}
	c.MC("Loader", c.TierCfg("MC_Loader"), 16, 30*time.Minute)
	// Ledger x pipeline discipline: every interleaving of the six balance stages over the days of a
	// small valued journal ends with the sequential result (report, stage states, failure flag)
	for id := 1; id <= c.Pick(2, 6); id++ {
		c.MC("Knut", fmt.Sprintf("MC_Knut_%d.cfg", id), 4, 10*time.Minute)
	}
	if r := c.TLC(core.TLCOpts{Spec: "Loader", Cfg: "MC_Loader_nodrain.cfg", Workers: 4, Timeout: 5 * time.Minute}); r.Violated == "" {
		c.Infra("MC_Loader_nodrain: the non-draining variant was expected to deadlock in the model")
	}
	bin := c.Knut("race")
	root := filepath.Join(c.Work, "c19")
	os.MkdirAll(root, 0o755)
	rng := rand.New(rand.NewSource(c.Seed))
	var scs []c19Scenario
	n := c.Pick(60, 600)
	seedsPer := c.Pick(3, 10)
	id := 0
	for k := 0; k < n; k++ {
		valued := k%2 == 0
		j := kj.Random(rng, kj.GenOpts{Valued: valued, Accruals: true, MaxDirs: 10, DensePrices: k%2 == 0}, 18262+rng.Intn(40))
		dirs := append([]kj.Dir(nil), j.Dirs...)
		rng.Shuffle(len(dirs), func(a, b int) { dirs[a], dirs[b] = dirs[b], dirs[a] })
		nfiles := 1 + rng.Intn(7)
		variant := []string{"none", "none", "none", "syntax", "model", "missing", "lifecycle", "price"}[rng.Intn(8)]
		if variant == "price" && !valued {
			variant = "none"
		}
		ntrx := 0
		hasAccrual := false
		for _, d := range dirs {
			if d.K == "trx" {
				ntrx++
				if d.Acc.On {
					hasAccrual = true // the expansion changes the number of transactions
				}
			}
		}
		switch variant {
		case "lifecycle":
			dirs = append(dirs, kj.Dir{K: "trx", Z: dirs[rng.Intn(len(dirs))].Z + 1, Desc: "unopened", Bk: []kj.Booking{{Cr: "Equity:Equity", Dr: "Assets:NeverOpened", C: "CHF", Q: 1}}})
			ntrx++
		case "price":
			dirs = append(dirs, kj.Dir{K: "open", Z: 18200, A: "Assets:Gold"}, kj.Dir{K: "trx", Z: dirs[rng.Intn(len(dirs))].Z + 2, Desc: "noprice", Bk: []kj.Booking{{Cr: "Equity:Equity", Dr: "Assets:Gold", C: "XAU", Q: 3}}})
			ntrx++
		}
		lay := kj.SplitTree(rng, j, dirs, nfiles)
		files := nfiles
		victim := lay.Order[rng.Intn(len(lay.Order))]
		switch variant {
		case "syntax":
			lay.Files[victim] += "\n2020-01-01 opn Assets:Oops\n"
		case "model":
			lay.Files[victim] += "\n2020-01-01 open Asset:Bank\n"
		case "missing":
			lay.Files[victim] += "\ninclude \"does/not/exist.knut\"\n"
		}
		cmds := [][]string{{"check"}, {"balance", "--color=false"}, {"print"}}
		hasUSD := false
		for _, d := range j.Dirs {
			if d.K == "price" && (d.C == "USD" || d.T == "USD") {
				hasUSD = true
			}
		}
		if valued && !hasUSD {
			cmds = append(cmds, []string{"balance", "--color=false", "-v", "CHF", "--months"}, []string{"transcode", "-v", "CHF"})
		}
		if valued && hasUSD {
			cmds = append(cmds, []string{"balance", "--color=false", "-v", "CHF", "--months"}, []string{"transcode", "-v", "CHF"}, []string{"balance", "--color=false", "-v", "USD", "--close=false", "-m", "1:1,^Assets"})
		}
		cmd := cmds[rng.Intn(len(cmds))]
		if variant == "price" {
			cmd = []string{"balance", "--color=false", "-v", "CHF"}
		}
		for s := 0; s < seedsPer; s++ {
			id++
			te := ntrx
			if variant != "none" || hasAccrual {
				te = -1
			}
			scs = append(scs, c19Scenario{ID: id, Layout: lay, Cmd: cmd, Variant: variant, ExpectFail: variant != "none", TrxExpected: te, Files: files,
				Seed: int(c.Seed)*1000 + id, Procs: []int{1, 2, 16}[s%3]})
		}
	}
	// many file tasks in flight at once: wide two-level and deep binary include trees
	for k, mk := range []func() (*kj.Layout, int){
		func() (*kj.Layout, int) { return kj.WideTree(12, 12) },
		func() (*kj.Layout, int) { return kj.DeepTree(c.Pick(7, 10)) },
		func() (*kj.Layout, int) { return kj.WideTree(20, 3) },
	} {
		lay, nt := mk()
		for s := 0; s < c.Pick(2, 6); s++ {
			id++
			scs = append(scs, c19Scenario{ID: id, Layout: lay, Cmd: [][]string{{"check"}, {"balance", "--color=false"}, {"print"}}[(k+s)%3], Variant: "none", TrxExpected: nt, Files: len(lay.Order),
				Seed: int(c.Seed)*1000 + id, Procs: []int{16, 2, 1}[s%3]})
		}
	}
	// valuation with a mapping: the valuation stage creates a new account (Income:<path>) on most days while the query
	// stage, days behind, looks up shortened accounts in the same registry
	{
		var b strings.Builder
		b.WriteString("2020-01-01 open Equity:Equity\n2020-01-01 price USD 0.9 CHF\n")
		nday := 90
		for k := 0; k < nday; k++ {
			fmt.Fprintf(&b, "2020-01-01 open Assets:D%d:Sub:Leaf\n", k)
		}
		for k := 0; k < nday; k++ {
			z := 18263 + k
			fmt.Fprintf(&b, "\n%s price USD 0.%d CHF\n%s \"buy %d\"\nEquity:Equity Assets:D%d:Sub:Leaf %d USD\n", kj.Day(z), 80+k%19, kj.Day(z), k, k, 10+k)
		}
		lay := &kj.Layout{Root: "main.knut", Files: map[string]string{"main.knut": b.String()}, Order: []string{"main.knut"}}
		for s := 0; s < c.Pick(12, 40); s++ {
			id++
			scs = append(scs, c19Scenario{ID: id, Layout: lay, Cmd: [][]string{{"balance", "--color=false", "-v", "CHF", "-m", "2,."}, {"balance", "--color=false", "-v", "CHF", "-m", "1:1,^Assets", "--months"}, {"register", "--color=false", "-v", "CHF", "-m", "2,."}}[s%3], Variant: "none", TrxExpected: -1, Files: 1,
				Seed: int(c.Seed)*1000 + id, Procs: []int{16, 4, 16, 8}[s%4]})
		}
	}
	// a few large files (hundreds of directives each) whose directives fall on the same days: the days of the journal
	// are filled from several files at once; the totals are asserted
	for k := 0; k < c.Pick(1, 3); k++ {
		nparts, nd := 3+k, 320+40*k
		lay := &kj.Layout{Root: "main.knut", Files: map[string]string{}, Order: []string{"main.knut"}}
		var main strings.Builder
		main.WriteString("2020-01-01 open Assets:Depot\n2020-01-01 open Equity:Equity\n\n")
		for f := 0; f < nparts; f++ {
			name := fmt.Sprintf("big/b%d.knut", f)
			fmt.Fprintf(&main, "include \"%s\"\n", name)
			var pb strings.Builder
			for t := 0; t < nd; t++ {
				fmt.Fprintf(&pb, "2020-02-%02d price Q%d %d.%02d CHF\n", 1+t%20, f, 1+t%7, t%100)
				fmt.Fprintf(&pb, "2020-02-%02d \"buy %d %d\"\nEquity:Equity Assets:Depot 1 LOT\n\n", 1+t%20, f, t)
			}
			lay.Files[name] = pb.String()
			lay.Order = append(lay.Order, name)
		}
		fmt.Fprintf(&main, "\n2020-03-20 balance Assets:Depot %d LOT\n", nparts*nd)
		lay.Files["main.knut"] = main.String()
		for s := 0; s < c.Pick(12, 40); s++ {
			id++
			scs = append(scs, c19Scenario{ID: id, Layout: lay, Cmd: [][]string{{"check"}, {"balance", "--color=false"}, {"print"}}[s%3], Variant: "none", TrxExpected: nparts * nd, Files: nparts + 1,
				Seed: int(c.Seed)*1000 + id, Procs: []int{16, 4, 16, 8}[s%4]})
		}
	}
	// many files that first mention the same fresh commodities at the same time, with an assertion on the totals:
	// the journal that is processed must be the union of the files (one commodity per name)
	for k := 0; k < c.Pick(2, 6); k++ {
		nparts, ncom := 40+10*k, 150
		lay := &kj.Layout{Root: "main.knut", Files: map[string]string{}, Order: []string{"main.knut"}}
		var main strings.Builder
		main.WriteString("2020-01-01 open Assets:Depot\n2020-01-01 open Equity:Equity\n\n")
		for f := 0; f < nparts; f++ {
			name := fmt.Sprintf("parts/p%03d.knut", f)
			fmt.Fprintf(&main, "include \"%s\"\n", name)
			var pb strings.Builder
			for t := 0; t < ncom; t++ {
				fmt.Fprintf(&pb, "2020-02-%02d \"buy %d %d\"\nEquity:Equity Assets:Depot %d W%03dQ\n\n", 1+f%28, f, t, 1+t, t)
			}
			lay.Files[name] = pb.String()
			lay.Order = append(lay.Order, name)
		}
		main.WriteString("\n2020-03-20 balance\n")
		for t := 0; t < ncom; t++ {
			fmt.Fprintf(&main, "Assets:Depot %d W%03dQ\n", nparts*(1+t), t)
		}
		lay.Files["main.knut"] = main.String()
		for s := 0; s < c.Pick(24, 60); s++ {
			id++
			scs = append(scs, c19Scenario{ID: id, Layout: lay, Cmd: [][]string{{"check"}, {"balance", "--color=false"}}[s%2], Variant: "none", TrxExpected: nparts * ncom, Files: nparts + 1,
				Seed: int(c.Seed)*1000 + id, Procs: []int{16, 16, 8, 16}[s%4]})
		}
	}
	// directed replay: every order of the processor callbacks that Pipeline.tla allows, forced on the real pipeline
	t0 := time.Now()
	phase := func(name string) {
		c.Set("seconds_"+name, int(time.Since(t0).Seconds()))
		t0 = time.Now()
	}
	forcedScs := replayScenarios(c, rng, bin, root, &id)
	phase("replay_generation")
	scs = append(scs, forcedScs...)
	cases := make([]map[string]any, len(scs))
	core.Parallel(len(scs), func(i int) { cases[i] = runC19(c, bin, root, scs[i]) })
	nAb, nForced := 0, 0
	for _, cs := range cases {
		if f := cs["forced"].(map[string]any); f["on"] == true {
			nForced++
			if f["abandoned"] == true {
				nAb++
			}
		}
	}
	c.Add("forced_schedules_replayed", nForced)
	c.Add("forced_schedules_abandoned", nAb)
	if nForced > 0 && nAb*2 > nForced {
		c.Infra("directed replay: %d of %d forced schedules were abandoned (a scheduled step did not arrive within the gate timeout)", nAb, nForced)
	}
	phase("runs")
	c.Add("process_calls_validated_step_by_step", applySteps(c, cases))
	phase("step_validation")
	// keep a copy of one eligible load for the non-vacuity test below (applyLoadSteps consumes the records)
	var sampleLoad map[string]any
	for _, cs := range cases {
		if m, ok := cs["load"].(map[string]any); ok && cs["variant"] == "none" && len(m["ev"].([]any)) >= 6 && m["n"].(int) >= 2 {
			sampleLoad = m
			break
		}
	}
	c.Add("loads_validated_step_by_step", applyLoadSteps(c, cases))
	phase("load_validation")
	if sampleLoad != nil {
		mutLoad := func(f func(ev []any) ([]any, bool)) map[string]any {
			ev, ok := f(append([]any(nil), sampleLoad["ev"].([]any)...))
			return map[string]any{"id": 0, "load": map[string]any{"n": sampleLoad["n"], "inc": sampleLoad["inc"], "bad": sampleLoad["bad"], "ok": ok, "ev": ev}}
		}
		muts := []map[string]any{
			mutLoad(func(ev []any) ([]any, bool) { return ev[1:], true }),                    // a logged step removed
			mutLoad(func(ev []any) ([]any, bool) { return ev, false }),                       // result flipped
			mutLoad(func(ev []any) ([]any, bool) { return append(ev, ev[len(ev)-1]), true }), // a step duplicated
			mutLoad(func(ev []any) ([]any, bool) { // a file converted before it was parsed
				for i, e := range ev {
					if e.(map[string]any)["k"] == "conv" {
						ev[0], ev[i] = ev[i], ev[0]
						break
					}
				}
				return ev, true
			}),
		}
		for k, m := range muts {
			m["id"] = -(k + 1)
			applyLoadSteps(c, []map[string]any{m})
			if m["loadOK"] == true {
				c.Infra("load step validation accepted corrupted load %d: the trace specification does not constrain the load", k+1)
			}
		}
		c.Add("corrupted_loads_rejected", len(muts))
	}
	// the binding is not vacuous: corrupted copies of an accepted recorded run must be rejected
	for _, cs := range cases {
		rs := stepRunsOf(cs)
		if cs["stepsOK"] != true || len(rs) == 0 || len(rs[0].Ev) < 6 || rs[0].Failed || rs[0].Of < 2 {
			continue
		}
		base := rs[0]
		mut := func(idx int, f func(ev []map[string]any) ([]map[string]any, bool)) stepRun {
			ev, failed := f(append([]map[string]any(nil), base.Ev...))
			return stepRun{Case: -idx, Idx: 0, Of: base.Of, Days: base.Days, Failed: failed, Ev: ev}
		}
		muts := []stepRun{
			mut(1, func(ev []map[string]any) ([]map[string]any, bool) { return append(ev[:2:2], ev[3:]...), false }), // a logged step removed
			mut(2, func(ev []map[string]any) ([]map[string]any, bool) { return ev, true }),                           // result flipped
			mut(3, func(ev []map[string]any) ([]map[string]any, bool) { return append(ev, ev[len(ev)-1]), false }),   // a step duplicated
			mut(4, func(ev []map[string]any) ([]map[string]any, bool) { // the last stage runs before the first on the first day
				k := -1
				for i, e := range ev {
					if e["s"] == base.Of && e["d"] == 1 {
						k = i
					}
				}
				if k > 0 {
					ev[0], ev[k] = ev[k], ev[0]
				}
				return ev, false
			}),
		}
		v := validateSteps(c, muts)
		for _, m := range muts {
			if _, rejected := v[[2]int{m.Case, 0}]; !rejected {
				c.Infra("step validation accepted corrupted run %d of case %v: the trace specification does not constrain the run", -m.Case, cs["id"])
			}
		}
		c.Add("corrupted_runs_rejected", len(v))
		break
	}
	nt := 0
	for _, cs := range cases {
		inter := false
		for _, r := range cs["runs"].([]any) {
			ev := r.(map[string]any)["ev"].([]any)
			for k := 1; k < len(ev); k++ {
				a, b := ev[k-1].(map[string]any), ev[k].(map[string]any)
				if a["s"].(int) > b["s"].(int) && a["d"].(int) < b["d"].(int) {
					inter = true
				}
			}
		}
		if inter || cs["files"].(int) >= 2 {
			nt++
		}
	}
	c.Add("evaluations", len(cases))
	c.Add("distinct_nontrivial", nt)
	c.Sample(map[string]any{"argv": cases[0]["argv"], "variant": cases[0]["variant"], "procs": cases[0]["procs"], "runs": cases[0]["runs"], "files": cases[0]["files"], "exit": cases[0]["exit"]})
	c.JudgeAndReport("Trace_Pipeline", "Trace_Pipeline.cfg", cases, 16,
		func(old map[string]any) map[string]any {
			cs := runC19(c, bin, root, scs[old["id"].(int)-1])
			applySteps(c, []map[string]any{cs})
			applyLoadSteps(c, []map[string]any{cs})
			return cs
		},
		func(cs map[string]any) (string, string) {
			lay := scs[cs["id"].(int)-1].Layout
			var fl strings.Builder
			for _, p := range lay.Order {
				fmt.Fprintf(&fl, "==> %s\n%s\n", p, lay.Files[p])
			}
			return "pipeline:" + fmt.Sprint(cs["why"]), fmt.Sprintf("knut %v (variant %v, GOMAXPROCS=%v, sched seed %v): %v\n%v\nexit=%v\nruns: %v\nstderr:\n%v\nfiles:\n%s", cs["argv"], cs["variant"], cs["procs"], cs["seed"], cs["why"], cs["steps"], cs["exit"], cs["runs"], cs["stderr"], fl.String())
		})
}

// loadRunOf extracts the recorded load (journal.FromPath) of a command run for step-by-step validation against
// Loader.tla: files in order of first appearance (root = 1), the include relation from the FileStart events,
// the fate of every file, and the logged steps.  nil when the run is not eligible (no events, too many files).
func loadRunOf(evs []hookEvent, exit int, timedOut bool) any {
	if timedOut || len(evs) == 0 {
		return nil
	}
	idx := map[string]int{}
	var inc [][]any
	var bad []any
	clean := func(p string) string { return path.Clean(p) }
	loaded := false
	var ev []any
	for _, e := range evs {
		switch e.Ev {
		case "FileStart":
			p := clean(e.Path)
			if _, ok := idx[p]; ok {
				return nil // a file included twice: outside the tree model
			}
			idx[p] = len(idx) + 1
			inc = append(inc, []any{})
			bad = append(bad, "ok")
			if len(idx) > 1 {
				par, ok := idx[clean(e.Parent)]
				if !ok {
					return nil
				}
				inc[par-1] = append(inc[par-1], idx[p])
			}
		case "FileDone":
			f, ok := idx[clean(e.Path)]
			if !ok {
				return nil
			}
			if e.Failed {
				bad[f-1] = "syntax"
			}
			ev = append(ev, map[string]any{"k": "done", "f": f})
		case "Converted", "ConvertFailed":
			f, ok := idx[clean(e.Path)]
			if !ok {
				return nil
			}
			k := "conv"
			if e.Ev == "ConvertFailed" {
				k, bad[f-1] = "convfail", "model"
			}
			ev = append(ev, map[string]any{"k": k, "f": f})
		case "Added":
			ev = append(ev, map[string]any{"k": "added", "f": 0})
		case "ProcessStart":
			loaded = true
		}
	}
	if len(idx) == 0 || len(idx) > 10 || len(ev) > 80 {
		return nil
	}
	if ev == nil {
		ev = []any{}
	}
	return map[string]any{"n": len(idx), "inc": inc, "bad": bad, "ok": loaded || exit == 0, "ev": ev}
}

// applyLoadSteps validates the recorded loads of the given cases against Loader.tla (Trace_LoaderSteps) and
// records the verdicts in them.
func applyLoadSteps(c *core.Ctx, cases []map[string]any) int {
	type item struct {
		cs   map[string]any
		line []byte
		nev  int
	}
	var items []item
	for _, cs := range cases {
		cs["loadOK"], cs["loadWhy"] = true, ""
		m, ok := cs["load"].(map[string]any)
		delete(cs, "load") // (not part of the judged case record)
		if !ok {
			continue
		}
		m["id"] = cs["id"]
		line, _ := json.Marshal(m)
		items = append(items, item{cs, line, len(m["ev"].([]any))})
	}
	total := len(items)
	nb := (len(items) + 149) / 150
	batches := make([][]item, nb)
	for i, it := range items {
		batches[i%nb] = append(batches[i%nb], it)
	}
	core.Parallel(nb, func(b int) {
		g := batches[b]
		for len(g) > 0 {
			var buf bytes.Buffer
			for _, it := range g {
				buf.Write(it.line)
				buf.WriteByte('\n')
			}
			t := c.TLC(core.TLCOpts{Spec: "Trace_LoaderSteps", Cfg: "Trace_LoaderSteps.cfg", Files: map[string][]byte{"runs.ndjson": buf.Bytes()}, Workers: 1, Timeout: 10 * time.Minute, Heap: "2g", DFS: true})
			if t.Violated == "NotAllAccepted" {
				return
			}
			hw := 0
			if m := reHighWater.FindStringSubmatch(t.Out); m != nil {
				hw, _ = strconv.Atoi(m[1])
			}
			rr, l := hw/hwBase, hw%hwBase
			if t.Violated != "" || t.TimedOut || !t.OK || rr < 1 || rr > len(g) {
				c.Infra("load step validation did not complete: violated=%q timedOut=%v\n%s", t.Violated, t.TimedOut, tailStr(t.Out, 1500))
				return
			}
			bad := g[rr-1]
			bad.cs["loadOK"] = false
			if l > bad.nev {
				bad.cs["loadWhy"] = fmt.Sprintf("all %d logged load steps are matched, but no behaviour of Loader.tla then ends with the observed result", bad.nev)
			} else {
				bad.cs["loadWhy"] = fmt.Sprintf("no behaviour of Loader.tla performs logged load step %d after the %d steps before it", l, l-1)
			}
			g = g[rr:]
		}
	})
	return total
}
