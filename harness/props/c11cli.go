package props

import (
	"fmt"
	"math/rand"
	"os"
	"path/filepath"
	"time"

	"kv/core"
	"kv/obs"
)

func ymd(z int) string { return dayToTime(z).Format("2006-01-02") }

func parseYMD(s string) (int, bool) {
	t, err := time.Parse("2006-01-02", s)
	if err != nil {
		return 0, false
	}
	return timeToDay(t), true
}

var ivFlags = []string{"--once", "--days", "--weeks", "--months", "--quarters", "--years"}

// c11cli binds Multiperiod.Partition + the renderer's column headers to Calendar.tla:
// the columns of `knut balance` must be the end dates of the expected partition of the
// requested window clipped to the journal's own period.
func c11cli(c *core.Ctx, rng *rand.Rand) {
	knut := c.Knut("")
	jmin, jmax := 18262, 18262+75 // 2020-01-01 .. 2020-03-16
	journal := fmt.Sprintf("%s open Assets:A\n%s open Equity:Equity\n\n%s \"first\"\nEquity:Equity Assets:A 10 CHF\n\n%s \"last\"\nEquity:Equity Assets:A 5 CHF\n",
		ymd(jmin-3), ymd(jmin-3), ymd(jmin), ymd(jmax))
	dir := filepath.Join(c.Work, "c11cli")
	os.MkdirAll(dir, 0o755)
	file := filepath.Join(dir, "j.knut")
	os.WriteFile(file, []byte(journal), 0o644)
	n := c.Pick(150, 1500)
	type spec struct{ from, to, iv, last int }
	specs := make([]spec, n)
	for k := range specs {
		sp := spec{from: jmin - 10 + rng.Intn(100), iv: rng.Intn(6), last: []int{0, 0, 1, 2, 3, 5}[rng.Intn(6)]}
		sp.to = sp.from + rng.Intn(90)
		if rng.Intn(8) == 0 {
			sp.to = sp.from - rng.Intn(5) // inverted
		}
		specs[k] = sp
	}
	cases := make([]map[string]any, n)
	run := func(k int) map[string]any {
		sp := specs[k]
		args := []string{"balance", "--color=false", "--from", ymd(sp.from), "--to", ymd(sp.to), "--last", fmt.Sprint(sp.last), ivFlags[sp.iv], file}
		r := core.Run(core.RunOpts{Timeout: 30 * time.Second}, knut, args...)
		cs := map[string]any{"id": 1000000 + k, "kind": "cli", "from": sp.from, "to": sp.to, "iv": ivNames[sp.iv], "last": sp.last,
			"jmin": jmin, "jmax": jmax, "argv": args, "exit": r.Exit}
		cols := []any{}
		if r.Exit == 0 {
			if t, err := obs.ParseBalanceText(r.Stdout); err == nil {
				for _, h := range t.Cols {
					if z, ok := parseYMD(h); ok {
						cols = append(cols, z)
					} else {
						cols = append(cols, noColumn)
					}
				}
			} else {
				cols = append(cols, noColumn)
			}
		} else {
			cols = append(cols, noColumn)
			cs["stderr"] = r.Stderr
		}
		cs["cols"] = cols
		return cs
	}
	core.Parallel(n, func(k int) { cases[k] = run(k) })
	c.Add("evaluations", n)
	nt := 0
	for _, cs := range cases {
		if len(cs["cols"].([]any)) >= 2 {
			nt++
		}
	}
	c.Add("distinct_nontrivial", nt)
	c.Add("cli_runs", n)
	c.Sample(cases[0])
	c.JudgeAndReport("Trace_Calendar", "Trace_Calendar.cfg", cases, 8,
		func(old map[string]any) map[string]any { return run(old["id"].(int) - 1000000) },
		func(cs map[string]any) (string, string) {
			return "cli-columns:" + fmt.Sprint(cs["iv"]), fmt.Sprintf("knut %v: column headers %v are not the period ends of the window clipped to the journal", cs["argv"], cs["cols"])
		})
}
