package props

import (
	"fmt"
	"math/rand"
	"os"
	"path/filepath"
	"sort"
	"strings"
	"time"

	"kv/core"
	"kv/kj"
)

type detScenario struct {
	Heavy bool // many concurrently loaded files: more repetitions, mostly on all CPUs
	ID    int
	Kind  string
	Setup func(dir string) []string // writes inputs, returns argv (without binary)
	Desc  string
}

var importerArgs = map[string][]string{
	"ch.cumulus":     {"--account", "Liabilities:Cumulus"},
	"ch.postfinance": {"--account", "Assets:Postfinance"},
	"revolut":        {"--account", "Assets:Accounts:Revolut"},
	"revolut2":       {"--account", "Assets:Accounts:Revolut", "--fee", "Expenses:Fees"},
	"ch.supercard":   {"--account", "Liabilities:CreditCard"},
	"ch.swisscard":   {"--account", "Liabilities:CreditCard"},
	"ch.swisscard2":  {"--account", "Liabilities:CreditCard"},
	"ch.viac":        {"--commodity", "Viac"},
	"com.wise":       {"--account", "Assets:Accounts:Wise", "--fee", "Expenses:Fees", "--trading", "Expenses:Trading"},
}
var importerDir = map[string]string{"ch.cumulus": "cumulus", "ch.postfinance": "postfinance", "revolut": "revolut", "revolut2": "revolut2", "ch.supercard": "supercard",
	"ch.swisscard": "swisscard", "ch.swisscard2": "swisscard2", "ch.viac": "viac", "com.wise": "wise"}

func runDet(c *core.Ctx, bin, root string, sc detScenario, reps int) map[string]any {
	dir := filepath.Join(root, fmt.Sprintf("d%d", sc.ID))
	os.RemoveAll(dir)
	os.MkdirAll(dir, 0o755)
	defer os.RemoveAll(dir)
	argv := sc.Setup(dir)
	type res struct {
		out  string
		exit int
	}
	if sc.Heavy {
		reps *= 3
	}
	results := make([]res, reps)
	core.Parallel(reps, func(k int) {
		env := []string{fmt.Sprintf("GOMAXPROCS=%d", []int{1, 2, 16, 4}[k%4]), fmt.Sprintf("VERIF_SCHED_SEED=%d", sc.ID*131+k)}
		if sc.Heavy {
			env[0] = fmt.Sprintf("GOMAXPROCS=%d", []int{16, 16, 8, 16, 4, 16}[k%6])
		}
		r := core.Run(core.RunOpts{Dir: dir, Timeout: 60 * time.Second, Env: env}, bin, argv...)
		ex := r.Exit
		if r.TimedOut {
			ex = -99
		}
		results[k] = res{r.Stdout, ex}
	})
	ids := map[string]int{}
	var outs, exits []any
	var distinct []string
	for _, r := range results {
		h := core.Sha(r.out)
		if _, ok := ids[h]; !ok {
			ids[h] = len(ids) + 1
			distinct = append(distinct, r.out)
		}
		outs = append(outs, ids[h])
		exits = append(exits, r.exit)
	}
	cs := map[string]any{"id": sc.ID, "kind": sc.Kind, "desc": sc.Desc, "argv": strings.Join(argv, " "), "outs": outs, "exits": exits, "ndistinct": len(ids)}
	if len(distinct) > 1 {
		cs["out1"], cs["out2"] = tailStr(distinct[0], 6000), tailStr(distinct[1], 6000)
	}
	return cs
}

func C06(c *core.Ctx) {
	c.Set("rule", "scenario = (input, command, flags); inputs with generated ties: unvalued reports (every weight 0), equal weights, same-day same-description transactions in different include files, tied infer candidates, importer statements, alternative price paths; each scenario is run R times in fresh processes (fresh map seeds) with GOMAXPROCS in {1,2,4,16} and schedule-perturbation seeds; non-trivial = scenario whose input contains a generated tie or more than one file")
	c.Trusted("TLC + Json module", "sha256 of stdout as output identity")
	for _, cfg := range []string{"MC_SortModel_fixed.cfg"} {
		c.MC("SortModel", cfg, 8, 10*time.Minute)
	}
	if r := c.TLC(core.TLCOpts{Spec: "SortModel", Cfg: "MC_SortModel_hazard.cfg", Workers: 4, Timeout: 5 * time.Minute}); r.Violated != "Deterministic" {
		c.Infra("MC_SortModel_hazard: expected Deterministic to be violated by the comparator without tie-break, got %q", r.Violated)
	}
	c.MC("MC_Prices", c.TierCfg("MC_Prices"), 16, 30*time.Minute) // Deterministic for the price normalisation
	for id := 1; id <= c.Pick(2, 6); id++ {                       // the report does not depend on the stage interleaving
		c.MC("Knut", fmt.Sprintf("MC_Knut_%d.cfg", id), 4, 10*time.Minute)
	}
	bin := c.Knut("verif")
	root := filepath.Join(c.Work, "c06")
	os.MkdirAll(root, 0o755)
	rng := rand.New(rand.NewSource(c.Seed))
	reps := c.Pick(16, 120)
	var scs []detScenario
	id := 0
	add := func(kind, desc string, setup func(dir string) []string) {
		id++
		scs = append(scs, detScenario{ID: id, Kind: kind, Desc: desc, Setup: setup, Heavy: kind == "heavy"})
	}
	// the README's example journal
	doc := filepath.Join(core.RepoRoot, "doc")
	copyDoc := func(dir string) string {
		for _, f := range []string{"example.knut", "USD.prices", "AAPL.prices"} {
			b, _ := os.ReadFile(filepath.Join(doc, f))
			os.WriteFile(filepath.Join(dir, f), b, 0o644)
		}
		os.WriteFile(filepath.Join(dir, "universe.yaml"), []byte("Equities:US:\n  - AAPL\nCash:Foreign:\n  - USD\nCash:Home:\n  - CHF\n"), 0o644)
		return "example.knut"
	}
	for _, fl := range [][]string{
		{"balance", "--color=false", "--to", "2020-04-01"},
		{"balance", "--color=false", "--months", "--from", "2020-01-01", "--to", "2020-04-01"},
		{"balance", "--color=false", "-v", "CHF", "--months", "--to", "2020-04-01"},
		{"balance", "--color=false", "-v", "CHF", "-m", "1,^(Income|Expenses)", "--to", "2020-04-01", "--diff"},
		{"balance", "--csv", "-v", "USD", "--weeks", "--last", "5", "--to", "2020-03-01"},
		{"print"}, {"check", "--write"}, {"transcode", "-v", "CHF"},
		{"portfolio", "weights", "-v", "CHF", "--universe", "universe.yaml", "--months", "--to", "2020-04-01", "--color=false"},
		{"portfolio", "weights", "-v", "CHF", "--csv", "--to", "2020-04-01"},
		{"portfolio", "returns", "-v", "CHF", "--months", "--to", "2020-04-01"},
		{"register", "--color=false", "-d", "--to", "2020-04-01"},
		{"register", "--color=false", "-a", "-c", "-v", "CHF", "--months", "--to", "2020-04-01"},
	} {
		fl := fl
		add("example", "doc/example.knut "+strings.Join(fl, " "), func(dir string) []string { return append(append([]string{}, fl...), copyDoc(dir)) })
	}
	// random journals with ties, split over include trees, twins across files
	nj := c.Pick(14, 120)
	for k := 0; k < nj; k++ {
		valued := k%2 == 1
		j := kj.Random(rng, kj.GenOpts{Valued: valued, MaxDirs: 10, Accruals: !valued}, 18262+rng.Intn(40))
		// twins: same date, description and booking count, different amounts/accounts
		var twins []kj.Dir
		for _, d := range j.Dirs {
			if d.K == "trx" && len(d.Bk) == 1 && !d.Acc.On && rng.Intn(2) == 0 {
				t := d
				t.Bk = []kj.Booking{{Cr: d.Bk[0].Dr, Dr: d.Bk[0].Cr, C: d.Bk[0].C, Q: d.Bk[0].Q + 1 + rng.Intn(5)}}
				twins = append(twins, t)
			}
		}
		j.Dirs = append(j.Dirs, twins...)
		dirs := append([]kj.Dir(nil), j.Dirs...)
		rng.Shuffle(len(dirs), func(a, b int) { dirs[a], dirs[b] = dirs[b], dirs[a] })
		lay := kj.SplitTree(rng, j, dirs, 2+rng.Intn(5))
		cmds := [][]string{{"balance", "--color=false"}, {"balance", "--color=false", "--months", "--diff"}, {"print"}, {"check", "--write"},
			{"register", "--color=false", "-d"}, {"register", "--color=false", "-a", "--weeks"}}
		if valued {
			cmds = append(cmds, []string{"register", "--color=false", "-v", "CHF", "-a", "-d", "-m", "1,^Expenses"})
			v := "CHF"
			cmds = append(cmds, []string{"balance", "--color=false", "-v", v, "--weeks"}, []string{"transcode", "-v", v}, []string{"portfolio", "weights", "-v", v, "--csv"}, []string{"balance", "--color=false", "-v", v, "-m", "1:1,^Assets", "-m", "1,."})
		}
		for _, cmd := range cmds {
			cmd := cmd
			add("journal", fmt.Sprintf("random journal %d (%d files) %s", k, len(lay.Order), strings.Join(cmd, " ")), func(dir string) []string {
				return append(append([]string{}, cmd...), lay.Write(dir))
			})
		}
	}
	// sibling groups with exactly equal valued totals, each the sum of several children with
	// "unround" amounts (ties between inner nodes; float-summation-order hazards)
	for k := 0; k < c.Pick(4, 30); k++ {
		k := k
		add("journal", fmt.Sprintf("equal sibling totals %d, balance -v", k), func(dir string) []string {
			r := rand.New(rand.NewSource(c.Seed*31337 + int64(k)))
			groups := []string{"Anna", "Ben", "Cleo", "Dan"}[:2+r.Intn(3)]
			kids := []string{"Food", "Rent", "Fun", "Car", "Misc"}[:3+r.Intn(3)]
			amts := make([]string, len(kids))
			for i := range amts {
				amts[i] = fmt.Sprintf("%d.%02d", 1+r.Intn(30000), 1+r.Intn(98))
			}
			var b strings.Builder
			b.WriteString("2020-01-01 open Assets:Bank\n")
			for _, g := range groups {
				for _, kd := range kids {
					fmt.Fprintf(&b, "2020-01-01 open Expenses:%s:%s\n", g, kd)
				}
			}
			b.WriteString("\n")
			for gi, g := range groups {
				for ki, kd := range kids {
					fmt.Fprintf(&b, "2020-02-%02d \"spend\"\nAssets:Bank Expenses:%s:%s %s CHF\n\n", 1+gi+ki, g, kd, amts[ki])
				}
			}
			os.WriteFile(filepath.Join(dir, "main.knut"), []byte(b.String()), 0o644)
			return []string{"balance", "--color=false", "-v", "CHF", "main.knut"}
		})
	}
	// hand-booked Equity:Valuation:* accounts, several of them used for the first time on the same
	// day (transcode opens such accounts itself, in the order it meets them)
	for k := 0; k < c.Pick(3, 12); k++ {
		k := k
		for _, cmd := range [][]string{{"transcode", "-v", "CHF"}, {"balance", "--color=false", "-v", "CHF", "--days"}, {"register", "--color=false", "-v", "CHF", "-d"}} {
			cmd := cmd
			add("journal", fmt.Sprintf("hand-booked valuation accounts %d, %s", k, strings.Join(cmd, " ")), func(dir string) []string {
				r := rand.New(rand.NewSource(c.Seed*7919 + int64(k)))
				names := []string{"BankA", "BankB", "Depot", "Cash", "Gold", "Loan", "Pension"}
				r.Shuffle(len(names), func(a, b int) { names[a], names[b] = names[b], names[a] })
				names = names[:3+r.Intn(4)]
				var b strings.Builder
				for _, n := range names {
					fmt.Fprintf(&b, "2020-01-01 open Assets:%s\n2020-01-01 open Equity:Valuation:%s\n", n, n)
				}
				b.WriteString("\n2020-01-01 price USD 0.95 CHF\n\n")
				for i, n := range names {
					day := 2 + (i%2)*r.Intn(2) // most of them on the same day
					fmt.Fprintf(&b, "2020-01-%02d \"Revaluation %s\"\nEquity:Valuation:%s Assets:%s %d USD\n\n", day, n, n, n, 100*(1+r.Intn(9)))
				}
				os.WriteFile(filepath.Join(dir, "main.knut"), []byte(b.String()), 0o644)
				return append(append([]string{}, cmd...), "main.knut")
			})
		}
	}
	// many files that all mention the same not-yet-registered commodities at the same time
	for k := 0; k < c.Pick(2, 6); k++ {
		k := k
		add("heavy", fmt.Sprintf("%d quote files x 300 fresh tickers, balance -v", 50+10*k), func(dir string) []string {
			var main strings.Builder
			main.WriteString("2020-01-01 open Assets:Depot\n2020-01-01 open Equity:Equity\n\n")
			for f := 0; f < 50+10*k; f++ {
				name := fmt.Sprintf("quotes/d%03d.knut", f)
				fmt.Fprintf(&main, "include \"%s\"\n", name)
				var b strings.Builder
				for t := 0; t < 300; t++ {
					fmt.Fprintf(&b, "2020-%02d-%02d price T%03dX %d.%02d CHF\n", 1+f/28, 1+f%28, t, 10+t, f%100)
				}
				os.MkdirAll(filepath.Join(dir, "quotes"), 0o755)
				os.WriteFile(filepath.Join(dir, name), []byte(b.String()), 0o644)
			}
			main.WriteString("\n")
			for t := 0; t < 300; t += 7 {
				fmt.Fprintf(&main, "2020-01-01 \"buy\"\nEquity:Equity Assets:Depot %d T%03dX\n\n", 1+t, t)
			}
			os.WriteFile(filepath.Join(dir, "main.knut"), []byte(main.String()), 0o644)
			return []string{"balance", "--color=false", "-v", "CHF", "--months", "main.knut"}
		})
	}
	// many files booking the same fresh commodities, with assertions on the totals (verdict and report)
	for k := 0; k < c.Pick(2, 6); k++ {
		for _, cmd := range [][]string{{"check"}, {"balance", "--color=false"}} {
			k, cmd := k, cmd
			add("heavy", fmt.Sprintf("%d files x 200 fresh commodities with assertions, %s", 50+10*k, cmd[0]), func(dir string) []string {
				nf := 50 + 10*k
				var main strings.Builder
				main.WriteString("2020-01-01 open Assets:Depot\n2020-01-01 open Equity:Equity\n\n")
				for f := 0; f < nf; f++ {
					name := fmt.Sprintf("parts/p%03d.knut", f)
					fmt.Fprintf(&main, "include \"%s\"\n", name)
					var b strings.Builder
					for t := 0; t < 200; t++ {
						fmt.Fprintf(&b, "2020-02-%02d \"buy %d\"\nEquity:Equity Assets:Depot %d K%03dQ\n\n", 1+f%28, t, 1+t, t)
					}
					os.MkdirAll(filepath.Join(dir, "parts"), 0o755)
					os.WriteFile(filepath.Join(dir, name), []byte(b.String()), 0o644)
				}
				main.WriteString("\n2020-03-01 balance\n")
				for t := 0; t < 200; t++ {
					fmt.Fprintf(&main, "Assets:Depot %d K%03dQ\n", nf*(1+t), t)
				}
				os.WriteFile(filepath.Join(dir, "main.knut"), []byte(main.String()), 0o644)
				return append(append([]string{}, cmd...), "main.knut")
			})
		}
	}
	// portfolio weights: sibling commodities whose weight series are mathematically identical (decimals such
	// as 0.1 / 0.3 / 0.7 that are not exact in binary), several commodities folded into one node, many digits
	for k := 0; k < c.Pick(3, 12); k++ {
		k := k
		for v, extra := range [][]string{{}, {"--digits", "14"}, {"--universe", "u.yaml", "-m", "1", "--digits", "14"}, {"--csv"}} {
			extra := extra
			add("weights", fmt.Sprintf("weights with identical series %d/%d", k, v), func(dir string) []string {
				r := rand.New(rand.NewSource(c.Seed*7919 + int64(k)))
				names := []string{"AAA", "BBB", "CCC", "DDD", "EEE", "FFF"}
				var b strings.Builder
				b.WriteString("2020-01-01 open Assets:Depot\n2020-01-01 open Equity:Equity\n\n")
				for _, n := range names {
					fmt.Fprintf(&b, "2020-01-01 price %s 1 CHF\n", n)
				}
				amts := []string{"0.1", "0.2", "0.3", "0.7", "0.6", "1.1", "0.9"}
				for m := 0; m < 3+k%3; m++ {
					fmt.Fprintf(&b, "\n2020-%02d-28 \"buy\"\n", 1+m)
					twin := amts[r.Intn(len(amts))] // AAA and BBB always get the same amount
					fmt.Fprintf(&b, "Equity:Equity Assets:Depot %s AAA\nEquity:Equity Assets:Depot %s BBB\n", twin, twin)
					for _, n := range names[2:] {
						if r.Intn(2) == 0 {
							fmt.Fprintf(&b, "Equity:Equity Assets:Depot %s %s\n", amts[r.Intn(len(amts))], n)
						}
					}
				}
				os.WriteFile(filepath.Join(dir, "w.knut"), []byte(b.String()), 0o644)
				os.WriteFile(filepath.Join(dir, "u.yaml"), []byte("Stocks:Tech:\n  - AAA\n  - BBB\n  - CCC\nStocks:\n  - DDD\nBonds:\n  - EEE\n  - FFF\n"), 0o644)
				return append(append([]string{"portfolio", "weights", "-v", "CHF", "--months", "--color=false"}, extra...), "w.knut")
			})
		}
	}
	// portfolio returns on deposit-only journals with many commodities (unchanged days must print the same
	// 0.0% every time), and on a card debt repaid in instalments (the base cancels only up to rounding)
	for k := 0; k < c.Pick(3, 10); k++ {
		k := k
		add("returns", fmt.Sprintf("returns, deposits only, %d", k), func(dir string) []string {
			r := rand.New(rand.NewSource(c.Seed*104729 + int64(k)))
			var b strings.Builder
			b.WriteString("2020-01-01 open Assets:Depot\n2020-01-01 open Liabilities:Card\n2020-01-01 open Equity:Equity\n2020-01-01 open Expenses:X\n\n")
			for n := 0; n < 10; n++ {
				fmt.Fprintf(&b, "2020-01-01 price C%d 1.%d CHF\n", n, 1+n)
			}
			for d := 2; d < 20; d++ {
				fmt.Fprintf(&b, "\n2020-01-%02d \"deposit\"\n", d)
				for n := 0; n < 10; n++ {
					if r.Intn(2) == 0 {
						fmt.Fprintf(&b, "Equity:Equity Assets:Depot %d.%d C%d\n", 1+r.Intn(9), 1+r.Intn(9), n)
					}
				}
				fmt.Fprintf(&b, "Equity:Equity Assets:Depot 0.1 C0\n")
			}
			b.WriteString("\n2020-01-21 \"card\"\nLiabilities:Card Expenses:X 417.05 CHF\n\n2020-01-22 \"repay\"\nEquity:Equity Liabilities:Card 82.72 CHF\n\n2020-01-23 \"repay\"\nEquity:Equity Liabilities:Card 334.33 CHF\n")
			os.WriteFile(filepath.Join(dir, "r.knut"), []byte(b.String()), 0o644)
			return append(append([]string{"portfolio", "returns", "-v", "CHF", "--days"}, [][]string{{}, {"--account", "Card"}, {"--account", "Depot"}}[k%3]...), "r.knut")
		})
	}
	// a deep include graph (4-6 levels) whose leaves all include a file that sits beside them: the leaves and the
	// shared file are loaded by sibling goroutines
	for k := 0; k < c.Pick(3, 12); k++ {
		k := k
		for _, cmd := range [][]string{{"print"}, {"balance", "--color=false", "-v", "CHF", "--months"}, {"check"}} {
			cmd := cmd
			add("journal", fmt.Sprintf("deep include graph with a shared sibling %d, %s", k, cmd[0]), func(dir string) []string {
				depth := 2 + k%3 // directories below the root
				leafDir, rel := dir, ""
				for d := 0; d < depth; d++ {
					rel = filepath.Join(rel, fmt.Sprintf("l%d", d))
				}
				leafDir = filepath.Join(dir, rel)
				os.MkdirAll(leafDir, 0o755)
				// root and one index file per level
				cur := dir
				os.WriteFile(filepath.Join(dir, "main.knut"), []byte("2020-01-01 open Assets:Bank\n2020-01-01 open Assets:Depot\n2020-01-01 open Equity:Equity\n\ninclude \"l0/index.knut\"\n"), 0o644)
				for d := 0; d < depth; d++ {
					cur = filepath.Join(cur, fmt.Sprintf("l%d", d))
					var b strings.Builder
					if d+1 < depth {
						fmt.Fprintf(&b, "include \"l%d/index.knut\"\n", d+1)
					} else {
						for m := 1; m <= 3+k%2; m++ {
							fmt.Fprintf(&b, "include \"m%d.knut\"\n", m)
						}
						b.WriteString("include \"prices.knut\"\n")
					}
					os.WriteFile(filepath.Join(cur, "index.knut"), []byte(b.String()), 0o644)
				}
				os.WriteFile(filepath.Join(leafDir, "prices.knut"), []byte("2020-01-01 price USD 0.9 CHF\n2020-02-01 price USD 0.95 CHF\n"), 0o644)
				for m := 1; m <= 3+k%2; m++ {
					var b strings.Builder
					b.WriteString("include \"prices.knut\"\n\n")
					for t := 0; t < 40; t++ {
						fmt.Fprintf(&b, "2020-%02d-%02d \"t%d\"\nEquity:Equity Assets:Bank %d CHF\n\n2020-%02d-%02d \"u%d\"\nEquity:Equity Assets:Depot %d USD\n\n", m, 1+t%27, t, 1+t, m, 1+t%27, t, 2+t)
					}
					os.WriteFile(filepath.Join(leafDir, fmt.Sprintf("m%d.knut", m)), []byte(b.String()), 0o644)
				}
				return append(append([]string{}, cmd...), "main.knut")
			})
		}
	}
	// infer with tied candidates
	for k := 0; k < c.Pick(6, 40); k++ {
		k := k
		add("infer", fmt.Sprintf("infer with tied candidates %d", k), func(dir string) []string {
			r := rand.New(rand.NewSource(c.Seed*977 + int64(k)))
			cands := []string{"Expenses:Food", "Expenses:Rent", "Expenses:Fun", "Assets:Cash", "Income:Gifts"}
			var tr, tg strings.Builder
			tr.WriteString("2020-01-01 open Assets:Bank\n")
			for _, a := range cands {
				fmt.Fprintf(&tr, "2020-01-01 open %s\n", a)
			}
			tr.WriteString("\n")
			words := []string{"coop", "migros", "rent", "cinema", "atm", "gift"}
			// odd scenarios: the training journal is an include tree, every candidate's bookings live in another
			// file (the files arrive in any order), and some target descriptions share no word with the training data
			split := k%2 == 1
			parts := make([]strings.Builder, len(cands))
			book := func(n int, w, a string) {
				out := &tr
				if split {
					for ci, cnd := range cands {
						if cnd == a {
							out = &parts[ci]
						}
					}
				}
				fmt.Fprintf(out, "2020-02-%02d \"%s\"\nAssets:Bank %s 10 CHF\n\n", 1+n, w, a)
			}
			for n := 0; n < 4+r.Intn(8); n++ {
				w := words[r.Intn(len(words))]
				// the same description booked to two different accounts: a tie
				a1, a2 := cands[r.Intn(len(cands))], cands[r.Intn(len(cands))]
				book(n, w, a1)
				book(n, w, a2)
			}
			for n := 0; n < 5; n++ {
				w1, w2 := words[r.Intn(len(words))], words[r.Intn(len(words))]
				if split && n%2 == 1 {
					w1, w2 = "unheard", "of"
				}
				fmt.Fprintf(&tg, "2020-03-%02d \"%s %s\"\nAssets:Bank Expenses:TBD %d CHF\n\n", 1+n, w1, w2, 5+n)
			}
			if split {
				for ci := range cands {
					if parts[ci].Len() == 0 {
						fmt.Fprintf(&parts[ci], "2020-02-20 \"once\"\nAssets:Bank %s 10 CHF\n\n", cands[ci])
					}
					os.MkdirAll(filepath.Join(dir, "tr"), 0o755)
					os.WriteFile(filepath.Join(dir, "tr", fmt.Sprintf("c%d.knut", ci)), []byte(parts[ci].String()), 0o644)
					fmt.Fprintf(&tr, "include \"tr/c%d.knut\"\n", ci)
				}
			}
			os.WriteFile(filepath.Join(dir, "train.knut"), []byte(tr.String()), 0o644)
			os.WriteFile(filepath.Join(dir, "target.knut"), []byte(tg.String()), 0o644)
			return []string{"infer", "-t", "train.knut", "target.knut"}
		})
	}
	// importers on the repository's statements
	var imps []string
	for name := range importerArgs {
		imps = append(imps, name)
	}
	sort.Strings(imps)
	for _, name := range imps {
		name := name
		add("import", "import "+name, func(dir string) []string {
			b, _ := os.ReadFile(filepath.Join(core.RepoRoot, "cmd/importer", importerDir[name], "testdata/example1.input"))
			os.WriteFile(filepath.Join(dir, "statement.input"), b, 0o644)
			return append(append([]string{"import", name}, importerArgs[name]...), "statement.input")
		})
	}
	// revolut2 statement with several currencies on one day (balance assertions per currency)
	add("import", "import revolut2, several currencies on one day", func(dir string) []string {
		os.WriteFile(filepath.Join(dir, "statement.input"), []byte(revolut2Multi()), 0o644)
		return []string{"import", "revolut2", "--account", "Assets:Revolut", "--fee", "Expenses:Fees", "statement.input"}
	})
	cases := make([]map[string]any, len(scs))
	// scenarios sequentially, repetitions in parallel
	for i := range scs {
		cases[i] = runDet(c, bin, root, scs[i], reps)
	}
	c.Add("evaluations", len(cases)*reps)
	c.Add("scenarios", len(cases))
	c.Add("distinct_nontrivial", len(cases))
	c.Set("repetitions_per_scenario", reps)
	c.Sample(map[string]any{"scenario": cases[0]["desc"], "outs": cases[0]["outs"], "exits": cases[0]["exits"]})
	c.Sample(map[string]any{"scenario": cases[len(cases)/2]["desc"], "outs": cases[len(cases)/2]["outs"]})
	c.JudgeAndReport("Trace_Determinism", "Trace_Determinism.cfg", cases, 4,
		func(old map[string]any) map[string]any { return runDet(c, bin, root, scs[old["id"].(int)-1], 3*reps) },
		func(cs map[string]any) (string, string) {
			sig := "nondeterministic:" + fmt.Sprint(cs["kind"])
			d := fmt.Sprint(cs["desc"])
			switch {
			case strings.Contains(d, "infer"):
				sig = "D8:infer-ties"
			case strings.Contains(d, "revolut2"):
				sig = "D9:revolut2-assertion-order"
			}
			return sig, fmt.Sprintf("%v\nknut %v\n%v distinct outputs in %d runs (exits %v)\n--- one output\n%v\n--- another output\n%v", cs["desc"], cs["argv"], cs["ndistinct"], len(cs["outs"].([]any)), cs["exits"], cs["out1"], cs["out2"])
		})
}

func revolut2Multi() string {
	var b strings.Builder
	b.WriteString("Type,Product,Started Date,Completed Date,Description,Amount,Fee,Currency,State,Balance\n")
	bal := map[string]float64{"CHF": 800, "EUR": 300, "USD": 120, "GBP": 55}
	for day := 1; day <= 3; day++ {
		for _, cur := range []string{"CHF", "EUR", "USD", "GBP"} {
			bal[cur] -= 10
			fmt.Fprintf(&b, "CARD_PAYMENT,Current,2020-07-%02d 10:00:00,2020-07-%02d 11:00:00,shop %s,-10.00,0.00,%s,COMPLETED,%.2f\n", day, day, cur, cur, bal[cur])
		}
	}
	return b.String()
}
