package props

import (
	"fmt"
	"math/rand"
	"os"
	"path/filepath"
	"regexp"
	"strings"
	"time"

	"kv/core"
	"kv/kj"

	"github.com/shopspring/decimal"
)

var (
	reBcOpen = regexp.MustCompile(`^(\d{4}-\d{2}-\d{2}) (open|close) (\S+)$`)
	reBcTrx  = regexp.MustCompile(`^(\d{4}-\d{2}-\d{2}) \* "(.*)"$`)
	reBcPost = regexp.MustCompile(`^  (\S+) (-?[0-9.]+) (\S+)$`)
)

// limbs converts |d| at scale 10^8 into little-endian base-10^4 limbs.
func limbs(d decimal.Decimal) ([]any, bool) {
	x := d.Abs().Shift(8)
	if !x.Equal(x.Truncate(0)) {
		return nil, false
	}
	s := x.Truncate(0).String()
	out := []any{}
	for len(s) > 0 {
		k := len(s) - 4
		if k < 0 {
			k = 0
		}
		v := 0
		for _, ch := range s[k:] {
			v = v*10 + int(ch-'0')
		}
		out = append(out, v)
		s = s[:k]
	}
	return out, true
}

func parseBeancount(out string) (entries []any, adjust []any, err error) {
	var cur map[string]any
	flush := func() {
		if cur != nil {
			entries = append(entries, cur)
			cur = nil
		}
	}
	for n, ln := range strings.Split(out, "\n") {
		switch {
		case strings.TrimSpace(ln) == "":
			flush()
		case strings.HasPrefix(ln, "option "):
		case reBcOpen.MatchString(ln):
			flush()
			m := reBcOpen.FindStringSubmatch(ln)
			z, _ := parseYMD(m[1])
			entries = append(entries, map[string]any{"k": m[2], "z": z, "a": m[3], "post": []any{}})
			adjust = append(adjust, false)
		case reBcTrx.MatchString(ln):
			flush()
			m := reBcTrx.FindStringSubmatch(ln)
			z, _ := parseYMD(m[1])
			cur = map[string]any{"k": "trx", "z": z, "a": "", "post": []any{}, "desc": m[2]}
			adjust = append(adjust, strings.HasPrefix(m[2], "Adjust value of "))
		case reBcPost.MatchString(ln) && cur != nil:
			m := reBcPost.FindStringSubmatch(ln)
			d, e := decimal.NewFromString(m[2])
			if e != nil {
				return nil, nil, fmt.Errorf("line %d: amount %q", n+1, m[2])
			}
			mag, ok := limbs(d)
			if !ok {
				return nil, nil, fmt.Errorf("line %d: more than 8 decimals: %q", n+1, m[2])
			}
			v, exact := 0, false
			if x := d.Abs().Shift(4); x.Equal(x.Truncate(0)) && x.LessThan(decimal.New(2000000000, 0)) {
				v, exact = int(x.IntPart()), true
			}
			cur["post"] = append(cur["post"].([]any), map[string]any{"a": m[1], "sg": d.Sign(), "mag": mag, "v": v, "exact": exact})
		default:
			return nil, nil, fmt.Errorf("line %d: unexpected: %q", n+1, ln)
		}
	}
	flush()
	return entries, adjust, nil
}

func observeTranscode(bin, dir string, id int, j *kj.Journal, v string, exact bool) map[string]any {
	f := &kj.Flags{From: 0, To: 40000, Iv: "once", V: v}
	cs := j.Case(id, "transcode", f)
	cs["exact"] = exact
	file := filepath.Join(dir, fmt.Sprintf("t%d.knut", id))
	text := j.Render()
	os.WriteFile(file, []byte(text), 0o644)
	defer os.Remove(file)
	r := core.Run(core.RunOpts{Timeout: 60 * time.Second}, bin, "transcode", "-v", v, file)
	obs := map[string]any{"exit": r.Exit, "empty": r.Stdout == "", "entries": []any{}, "adjust": []any{}}
	if r.TimedOut || strings.Contains(r.Stderr, "panic:") {
		obs["exit"] = -9
	}
	if r.Exit == 0 {
		es, adj, err := parseBeancount(r.Stdout)
		if err != nil {
			obs["exit"] = -8
			cs["parse_error"] = err.Error()
		} else {
			obs["entries"], obs["adjust"] = es, adj
		}
	}
	cs["obs"] = obs
	cs["text"], cs["stdout"], cs["stderr"], cs["v"] = text, r.Stdout, r.Stderr, v
	return cs
}

func C16(c *core.Ctx) {
	c.Set("rule", "random accepted journals with prices (exact regime: integer quantities, friendly prices, sparse and dense price days, flattened/re-opened positions, closes; free regime: 2-decimal quantities and arbitrary 4-decimal prices incl. inverse and chained ones - structure only) x valuation commodity; distinct by (journal, V); non-trivial = output contains >= 1 'Adjust value' transaction")
	c.Trusted("TLC + Json module", "kj renderer", "line reader for the beancount text", "decimal -> base-10^4 limb conversion (sums are computed by TLC, BigNat.tla)")
	c.MC("MC_Ledger", c.TierCfg("MC_Ledger_valued"), 16, 60*time.Minute)
	bin := c.Knut("")
	root := filepath.Join(c.Work, "c16")
	os.MkdirAll(root, 0o755)
	rng := rand.New(rand.NewSource(c.Seed))
	n := c.Pick(220, 3000)
	type job struct {
		j     *kj.Journal
		v     string
		exact bool
	}
	jobs := make([]job, n)
	for i := range jobs {
		exact := i%3 != 2
		j := kj.Random(rng, kj.GenOpts{Valued: true, MaxDirs: 12, DensePrices: i%2 == 0}, 18262+rng.Intn(60))
		if !exact {
			// free regime: fractional quantities, arbitrary prices
			j.QS = 100
			for k := range j.Dirs {
				switch j.Dirs[k].K {
				case "price":
					j.Dirs[k].P = 1000 + rng.Intn(30000)
				case "trx":
					bk := append([]kj.Booking(nil), j.Dirs[k].Bk...)
					for b := range bk {
						bk[b].Q = bk[b].Q*100 + rng.Intn(100)
					}
					j.Dirs[k].Bk = bk
				}
			}
		} else if rng.Intn(3) == 0 {
			// close an account that never had a position, at the end
			_, hi := journalSpan(j)
			j.Dirs = append(j.Dirs, kj.Dir{K: "open", Z: 18200, A: "Expenses:Unused"}, kj.Dir{K: "close", Z: hi + 1, A: "Expenses:Unused"})
			// an account that is opened, closed, opened again and then used
			lo, _ := journalSpan(j)
			j.Dirs = append(j.Dirs, kj.Dir{K: "open", Z: 18200, A: "Assets:Temp"}, kj.Dir{K: "close", Z: lo + 1, A: "Assets:Temp"},
				kj.Dir{K: "open", Z: lo + 2, A: "Assets:Temp"},
				kj.Dir{K: "trx", Z: hi, Desc: "after re-open", Bk: []kj.Booking{{Cr: "Equity:Equity", Dr: "Assets:Temp", C: "CHF", Q: 5}}})
		}
		// the same booking twice on one day (two coffees): transactions that compare equal
		if i%2 == 1 {
			for _, d := range append([]kj.Dir(nil), j.Dirs...) {
				if d.K == "trx" && !d.Acc.On && rng.Intn(2) == 0 {
					j.Dirs = append(j.Dirs, d)
				}
			}
		}
		v := "CHF"
		for _, d := range j.Dirs {
			if d.K == "price" && (d.C == "USD" || d.T == "USD") && rng.Intn(2) == 0 {
				v = "USD"
			}
		}
		jobs[i] = job{j, v, exact}
	}
	cases := make([]map[string]any, n)
	core.Parallel(n, func(i int) { cases[i] = observeTranscode(bin, root, i+1, jobs[i].j, jobs[i].v, jobs[i].exact) })
	nt := 0
	for _, cs := range cases {
		if strings.Contains(cs["stdout"].(string), "Adjust value of") {
			nt++
		}
	}
	c.Add("evaluations", n)
	c.Add("distinct_nontrivial", nt)
	c.Sample(map[string]any{"journal": cases[0]["text"], "v": cases[0]["v"], "beancount": tailStr(cases[0]["stdout"].(string), 1500)})
	c.JudgeAndReport("Trace_Beancount", "Trace_Beancount.cfg", cases, 16,
		func(old map[string]any) map[string]any {
			id := old["id"].(int)
			return observeTranscode(bin, root, id, jobs[id-1].j, jobs[id-1].v, jobs[id-1].exact)
		},
		func(cs map[string]any) (string, string) {
			sig := "beancount:" + fmt.Sprint(cs["why"])
			if cs["why"] == "valuation-account-never-opened" {
				sig = "D11:valuation-account-never-opened"
			}
			return sig, fmt.Sprintf("knut transcode -v %v: %v %v\n--- journal\n%v\n--- output\n%v\n%v", cs["v"], cs["why"], cs["parse_error"], cs["text"], cs["stdout"], cs["stderr"])
		})
}
