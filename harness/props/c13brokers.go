package props

import (
	"bytes"
	"fmt"
	"strings"
)

// Statement writers for the brokerage / transfer formats (ch.swissquote, us.interactivebrokers,
// com.wise) and the price-only format (ch.viac).  As for the bank formats, the writers are the only
// format-specific harness code: they encode an abstract row (date, effects on the import account,
// free text) the way the institution's export does.

var brokerArgs = []string{"--account", "Assets:Broker", "--interest", "Income:Interest", "--dividend", "Income:Dividends",
	"--tax", "Expenses:Tax", "--fee", "Expenses:Fees", "--trading", "Expenses:Trading"}

var stockSyms = []string{"AAPL", "VWRL", "NESN", "X1"}

func isCurrency(c string) bool { return c == "CHF" || c == "EUR" || c == "USD" }

// apos renders a scale-100 amount with ' as thousands separator (Swissquote).
func apos(v int) string {
	neg := v < 0
	if neg {
		v = -v
	}
	ip := fmt.Sprint(v / 100)
	var g []string
	for len(ip) > 3 {
		g = append([]string{ip[len(ip)-3:]}, g...)
		ip = ip[:len(ip)-3]
	}
	g = append([]string{ip}, g...)
	s := fmt.Sprintf("%s.%02d", strings.Join(g, "'"), v%100)
	if neg {
		s = "-" + s
	}
	return s
}

// commas renders a scale-100 amount with , as thousands separator (Interactive Brokers).
func commas(v int) string { return strings.ReplaceAll(apos(v), "'", ",") }

func swissquoteWrite(rows []stRow) []byte {
	recs := [][]string{{"Datum", "Auftrag #", "Transaktionen", "Symbol", "Name", "ISIN", "Anzahl", "Stückpreis", "Kosten", "Aufgelaufene Zinsen", "Nettobetrag", "Saldo", "Währung"}}
	for k := len(rows) - 1; k >= 0; k-- { // newest first, as exported
		r := rows[k]
		dt := dayToTime(r.Z).Format("02-01-2006") + fmt.Sprintf(" %02d:%02d:07", (k*7+r.Z)%24, 3*k%60)
		line := func(typ, sym, name, isin, qty string, price, cost, net int, cur string) {
			recs = append(recs, []string{dt, fmt.Sprintf("%08d", 76396000+k), typ, sym, name, isin, qty, apos(price), apos(cost), "0.00", apos(net), apos(r.Bal), cur})
		}
		switch r.Kind {
		case "transfer":
			typ := []string{"Einzahlung", "Vergütung"}[k%2]
			if r.Amt < 0 {
				typ = []string{"Auszahlung", "Belastung"}[k%2]
			}
			line(typ, "", "", "", "1.0", abs(r.Amt), 0, r.Amt, r.Cur)
		case "interest":
			line("Zins", "", "", "", "1.0", abs(r.Amt), 0, r.Amt, r.Cur)
		case "custody":
			vat := abs(r.Amt) * 7 / 100
			line("Depotgebühren", "", "", "", "1.0", abs(r.Amt)-vat, vat, r.Amt, r.Cur)
		case "other": // any other transaction type is booked against the placeholder account; the type is free text
			line(r.Text, "", "", "", "1.0", abs(r.Amt), 0, r.Amt, r.Cur)
		case "dividend": // gross amount in the price column, withholding tax in the cost column, net = gross - tax
			tax := 0
			if k%2 == 1 {
				tax = r.Amt * 35 / 65
			}
			typ := []string{"Dividende", "Capital Gain", "Kapitalrückzahlung"}[k%3]
			// number of shares and amount per share: the gross amount is their product
			shares := 1
			for _, n := range []int{8, 5, 4, 3, 2} {
				if (r.Amt+tax)%n == 0 && k%2 == 0 {
					shares = n
					break
				}
			}
			line(typ, stockSyms[k%len(stockSyms)], r.Text, "IE00B3RBWM25", fmt.Sprintf("%d.0", shares), (r.Amt+tax)/shares, tax, r.Amt, r.Cur)
		case "trade":
			q := r.Extra[0].V // shares at scale 100 (whole shares)
			n := abs(q) / 100
			cost := 0
			var price int
			typ := "Kauf"
			if q > 0 { // net = -(n*price + cost)
				cost = (-r.Amt) % n
				price = (-r.Amt - cost) / n
			} else if r.Amt <= 0 { // worthless shares sold: no proceeds, only the fee
				typ, cost, price = "Verkauf", -r.Amt, 0
			} else { // net = n*price - cost
				typ = "Verkauf"
				cost = (n - r.Amt%n) % n
				price = (r.Amt + cost) / n
			}
			line(typ, r.Extra[0].C, r.Text, "IE00B3RBWM25", fmt.Sprintf("%d.0", n), price, cost, r.Amt, r.Cur)
		case "forex": // two lines, one transaction: credit in r.Cur, debit in the other currency
			names := [][]string{{"Forex-Gutschrift", "Forex-Belastung"}, {"Fx-Gutschrift Comp.", "Fx-Belastung Comp."}}[k%2]
			o := r.Extra[0]
			if k%3 == 0 {
				line(names[1], "", "", "", "1.0", abs(o.V), 0, o.V, o.C)
				line(names[0], "", "", "", "1.0", abs(r.Amt), 0, r.Amt, r.Cur)
			} else {
				line(names[0], "", "", "", "1.0", abs(r.Amt), 0, r.Amt, r.Cur)
				line(names[1], "", "", "", "1.0", abs(o.V), 0, o.V, o.C)
			}
		}
	}
	return csvBytes(';', recs)
}

func ibWrite(rows []stRow, finals []stEff, endZ int) []byte {
	var b bytes.Buffer
	w := func(fields ...string) { b.Write(csvBytes(',', [][]string{fields})) }
	w("Statement", "Header", "Field Name", "Field Value")
	w("Statement", "Data", "BrokerName", "Interactive Brokers")
	w("Statement", "Data", "Title", "Activity Statement")
	period := "January 1, 2020 - " + dayToTime(endZ).Format("January 2, 2006")
	oneDay := len(rows) > 0
	for _, x := range rows {
		oneDay = oneDay && x.Z == endZ
	}
	if oneDay {
		// a daily activity statement names its day, not a range
		period = dayToTime(endZ).Format("January 2, 2006")
	}
	w("Statement", "Data", "Period", period)
	w("Account Information", "Header", "Field Name", "Field Value")
	w("Account Information", "Data", "Name", "Rocky Balboa")
	w("Account Information", "Data", "Base Currency", "CHF")
	positions := func() {
		w("Open Positions", "Header", "DataDiscriminator", "Asset Category", "Currency", "Symbol", "Quantity", "Mult", "Cost Price", "Cost Basis", "Close Price", "Value", "Unrealized P/L", "Unrealized P/L %", "Code")
		for _, f := range finals {
			if !isCurrency(f.C) && f.F4 != 0 {
				qs := dec4(f.F4)
				if f.F4%10000 == 0 { // whole shares are exported with thousands separators
					qs = commas(f.F4 / 100)
					qs = qs[:len(qs)-3]
				}
				w("Open Positions", "Data", "Summary", "Stocks", "USD", f.C, qs, "1", "100.00", "100.00", "100.00", "100.00", "100.00", "100.00", "")
			}
		}
		w("Open Positions", "Total", "", "Stocks", "USD", "", "", "", "", "100.00", "", "100.00", "100.00", "", "")
		w("Forex Balances", "Header", "Asset Category", "Currency", "Description", "Quantity", "Cost Price", "Cost Basis in CHF", "Close Price", "Value in CHF", "Unrealized P/L in CHF", "Code")
		for _, f := range finals {
			if isCurrency(f.C) && f.F4 != 0 {
				// the export carries more decimals than the ledger; the importer rounds to cents
				w("Forex Balances", "Data", "Forex", "CHF", f.C, strings.ReplaceAll(apos(f.V), "'", "")+"0033", "1", "-"+amt2(f.V), "1", amt2(f.V), "0", "")
			}
		}
	}
	positions()
	for k, r := range rows {
		d := dayToTime(r.Z).Format("2006-01-02")
		switch r.Kind {
		case "trade":
			q := r.Extra[0].V / 100
			price := abs(r.Amt) * 100 / abs(q) / 100
			qs := commas(q * 100)[:len(commas(q*100))-3] // whole shares, with thousands separators
			if r.Extra[0].F4 != 0 {
				qs = dec4(r.Extra[0].F4) // fractional shares
			}
			w("Trades", "Data", "Order", "Stocks", r.Cur, r.Extra[0].C, d+fmt.Sprintf(", %02d:%02d:49", (k*7+r.Z)%24, k%60), qs, amt2(price), amt2(price), commas(r.Amt), amt2(-r.Fee), "0", "0", "40.425", "O", "")
		case "forex":
			o := r.Extra[0]
			fee := 0
			if len(r.Extra) > 1 {
				fee = r.Extra[1].V
			}
			w("Trades", "Data", "Order", "Forex", r.Cur, o.C+"."+r.Cur, d+fmt.Sprintf(", %02d:%02d:34", (k*5+r.Z+13)%24, k%60), commas(o.V), "1.03371", "", commas(r.Amt)+"433"[:3*(k%2)], amt2(fee), "", "", "", "3.446", "")
		case "transfer":
			w("Deposits & Withdrawals", "Data", r.Cur, d, r.Text, commas(r.Amt))
		case "dividend":
			w("Dividends", "Data", r.Cur, d, stockSyms[k%len(stockSyms)]+"(US0378331005) Cash Dividend "+r.Text, commas(r.Amt))
		case "tax":
			w("Withholding Tax", "Data", r.Cur, d, stockSyms[k%len(stockSyms)]+"(US0378331005) "+r.Text+" - US Tax", amt2(r.Amt), "")
		case "interest":
			w("Interest", "Data", r.Cur, d, r.Cur+" Debit Interest for "+r.Text, amt2(r.Amt))
		}
	}
	w("Deposits & Withdrawals", "Data", "Total", "", "", "1000")
	w("Dividends", "Data", "Total", "", "", "10.00")
	w("Interest", "Data", "Total", "", "", "-0.73")
	return b.Bytes()
}

func wiseWrite(rows []stRow) []byte {
	recs := [][]string{{"ID", "Status", "Direction", "Created on", "Finished on", "Source fee amount", "Source fee currency", "Target fee amount", "Target fee currency",
		"Source name", "Source amount (after fees)", "Source currency", "Target name", "Target amount (after fees)", "Target currency", "Exchange rate", "Reference", "Batch"}}
	for k := len(rows) - 1; k >= 0; k-- {
		r := rows[k]
		ts := dayToTime(r.Z).Format("2006-01-02") + fmt.Sprintf(" %02d:%02d:30", (k*11+r.Z)%24, k%60)
		feeA, feeC := "", ""
		if r.Fee != 0 || k%2 == 0 {
			feeA, feeC = amt2(r.Fee), r.Cur
		}
		id := []string{"CARD_TRANSACTION", "TRANSFER", "BALANCE_TRANSACTION"}[k%3] + fmt.Sprintf("-%d", 12+k)
		if k%3 == 1 { // a cancelled transfer is not a booking
			recs = append(recs, []string{id + "9", "CANCELLED", "OUT", ts, ts, "0.50", r.Cur, "", "", "Rocky Balboa", "77.00", r.Cur, "Nobody", "77.00", r.Cur, "1.0", "", ""})
		}
		switch r.Kind {
		case "convert":
			o := r.Extra[0]
			recs = append(recs, []string{id, "COMPLETED", "NEUTRAL", ts, ts, feeA, feeC, "", "", "Rocky Balboa", amt2(-r.Amt), r.Cur, "Rocky Balboa", amt2(o.V), o.C, "1.83842000", "", ""})
		default:
			dir := "OUT"
			if r.Amt > 0 {
				dir = "IN"
			}
			recs = append(recs, []string{id, "COMPLETED", dir, ts, ts, feeA, feeC, "", "", "Rocky Balboa", amt2(abs(r.Amt)), r.Cur, r.Text, amt2(abs(r.Amt)), r.Cur, "1.0", "", ""})
		}
	}
	return csvBytes(',', recs)
}

func viacWrite(prices []stPrice) []byte {
	var b strings.Builder
	b.WriteString(`{"dailyWealth":[`)
	for k, p := range prices {
		if k > 0 {
			b.WriteString(",")
		}
		v := fmt.Sprintf("%d.%06d", p.Raw/1000000, p.Raw%1000000)
		switch {
		case p.Raw%1000000 == 0:
			v = fmt.Sprint(p.Raw / 1000000) // whole numbers are exported without decimals
		case k%2 == 0:
			v += "97260273972603"
		}
		fmt.Fprintf(&b, `{"date":"%s","value":%s}`, dayToTime(p.Z).Format("2006-01-02"), v)
	}
	b.WriteString(`],"totalPerformance":0.1234}`)
	return []byte(b.String())
}

var brokerImporters = []importerSpec{
	{Name: "ch.swissquote", Args: brokerArgs, Account: "Assets:Broker", Multi: true, Write: swissquoteWrite,
		Kinds: []string{"transfer", "interest", "custody", "other", "dividend", "trade", "forex", "dividend", "trade"}},
	{Name: "us.interactivebrokers", Args: brokerArgs, Account: "Assets:Broker", Multi: true, Finals: true, WriteX: ibWrite,
		Kinds: []string{"transfer", "interest", "dividend", "tax", "trade", "forex", "trade"}},
	{Name: "com.wise", Args: []string{"--account", "Assets:Broker", "--fee", "Expenses:Fees", "--trading", "Expenses:Trading"}, Account: "Assets:Broker", Multi: true, Fee: true, Write: wiseWrite,
		Kinds: []string{"pay", "pay", "convert"}},
	{Name: "ch.viac", Args: []string{"--commodity", "Viac"}, Prices: viacWrite},
}

// dec4 renders a scale-10^4 quantity without trailing zeros.
func dec4(v int) string {
	sign := ""
	if v < 0 {
		sign, v = "-", -v
	}
	s := fmt.Sprintf("%d.%04d", v/10000, v%10000)
	return sign + strings.TrimRight(strings.TrimRight(s, "0"), ".")
}
