package props

import (
	"encoding/json"
	"fmt"
	"math/rand"
	"sort"

	"github.com/sboehler/knut/lib/model/commodity"
	"github.com/sboehler/knut/lib/model/price"
	"github.com/sboehler/knut/lib/model/registry"
	"github.com/shopspring/decimal"

	"kv/core"
)

// C12 beyond the 32-bit regimes: declared prices of any size with up to 12 decimals, judged by
// Trace_PricesLong (PricesLong.tla: the same graph and breadth-first normalisation over BigNat limbs).

type longDecl struct {
	C, T string
	P    decimal.Decimal
}

type longCase struct {
	Order []string
	V     string
	Decls []longDecl
}

// limbsAt converts d >= 0 at scale 10^sc into little-endian base-10^4 limbs (exact or not ok).
func limbsAt(d decimal.Decimal, sc int32) ([]any, bool) {
	x := d.Shift(sc)
	if d.IsNegative() || !x.Equal(x.Truncate(0)) {
		return nil, false
	}
	s := x.Truncate(0).String()
	out := []any{}
	if s == "0" {
		return out, true
	}
	for len(s) > 0 {
		k := len(s) - 4
		if k < 0 {
			k = 0
		}
		v := 0
		for _, ch := range s[k:] {
			v = v*10 + int(ch-'0')
		}
		out = append(out, v)
		s = s[:k]
	}
	return out, true
}

func observePricesLong(id int, lc longCase, reps int) map[string]any {
	cs := map[string]any{"id": id, "order": toAnyS(lc.Order), "v": lc.V}
	ds := []any{}
	for _, d := range lc.Decls {
		p, _ := limbsAt(d.P, 12)
		// the reciprocal truncated to 8 decimals, computed here with 40 digits and verified by the judge (IsInv)
		r, _ := limbsAt(decimal.New(1, 0).DivRound(d.P, 40).Truncate(8), 8)
		ds = append(ds, map[string]any{"c": d.C, "t": d.T, "p": p, "r": r, "text": d.P.String()})
	}
	cs["decls"] = ds
	distinct := map[string]map[string]any{}
	for r := 0; r < reps; r++ {
		reg := registry.New()
		com := map[string]*commodity.Commodity{}
		for _, n := range lc.Order {
			com[n] = reg.Commodities().MustGet(n)
		}
		ps := make(price.Prices)
		for _, d := range lc.Decls {
			ps.Insert(com[d.C], d.P, com[d.T])
		}
		out := map[string]any{}
		func() {
			defer func() {
				if rec := recover(); rec != nil {
					out["panic"] = fmt.Sprint(rec)
				}
			}()
			np := ps.Normalize(com[lc.V])
			for _, n := range lc.Order {
				p, ok := np[com[n]]
				if !ok {
					out[n] = []any{-1}
					continue
				}
				l, exact := limbsAt(p, 8)
				if !exact {
					l = []any{-2} // more than 8 decimals or negative: nothing the model produces
				}
				out[n] = l
			}
		}()
		b, _ := json.Marshal(out)
		distinct[string(b)] = out
	}
	var keys []string
	for k := range distinct {
		keys = append(keys, k)
	}
	sort.Strings(keys)
	outs := []any{}
	for _, k := range keys {
		outs = append(outs, distinct[k])
	}
	cs["outs"] = outs
	return cs
}

func c12long(c *core.Ctx) {
	rng := rand.New(rand.NewSource(c.Seed*31 + 7))
	n := c.Pick(300, 6000)
	names := []string{"AAA", "BBB", "CCC", "DDD", "EEE"}
	lcs := make([]longCase, n)
	for i := range lcs {
		order := append([]string(nil), names[:3+rng.Intn(3)]...)
		sort.Strings(order)
		lc := longCase{Order: order, V: order[rng.Intn(len(order))]}
		for k := 0; k < 2+rng.Intn(5); k++ {
			a, b := order[rng.Intn(len(order))], order[rng.Intn(len(order))]
			if a == b {
				continue
			}
			// 1-12 decimals, magnitudes from 10^-6 to 10^6, many with digits beyond the eighth decimal
			dec := []int32{0, 2, 4, 8, 9, 9, 10, 12, 12}[rng.Intn(9)]
			mant := int64(1 + rng.Intn(999999999))
			if rng.Intn(3) == 0 {
				mant = int64(1 + rng.Intn(9999))
			}
			p := decimal.New(mant, -dec)
			if rng.Intn(4) == 0 {
				p = p.Add(decimal.New(int64(rng.Intn(1000000)), 0))
			}
			if rng.Intn(8) == 0 {
				// a price above 10^8: its reciprocal truncates to 0.00000000 (stored like any other reciprocal; what is
				// valued through it is worth nothing)
				p = p.Add(decimal.New(int64(1+rng.Intn(50)), 8))
			}
			if p.IsZero() {
				continue
			}
			lc.Decls = append(lc.Decls, longDecl{C: a, T: b, P: p})
		}
		lcs[i] = lc
	}
	// directed: prices whose reciprocal lies just below an 8-decimal number (1/p = r - delta with delta < 10^-17): a
	// division that rounds at 16 decimals before truncating to 8 yields r, the truncated reciprocal is r - 10^-8
	for k := 0; k < c.Pick(24, 200); k++ {
		r := decimal.New(int64(1+rng.Intn(6500)), -8)
		p := decimal.New(1, 0).DivRound(r, 40).Truncate(8).Add(decimal.New(1, -8)) // the next 8-decimal number above 1/r
		lc := longCase{Order: []string{"AAA", "BBB", "CCC"}, V: "AAA", Decls: []longDecl{{C: "AAA", T: "BBB", P: p}}}
		if k%2 == 1 {
			lc.Decls = append(lc.Decls, longDecl{C: "CCC", T: "BBB", P: decimal.New(int64(1+rng.Intn(99)), 0)})
		}
		if k == 0 {
			lc.Decls[0].P = decimal.RequireFromString("110.72124929")
		}
		lcs = append(lcs, lc)
	}
	n = len(lcs)
	cases := make([]map[string]any, n)
	core.Parallel(n, func(i int) { cases[i] = observePricesLong(i+1, lcs[i], 6) })
	c.Add("long_price_graphs", n)
	c.Add("evaluations", n)
	c.JudgeAndReport("Trace_PricesLong", "Trace_PricesLong.cfg", cases, 16,
		func(old map[string]any) map[string]any {
			return observePricesLong(old["id"].(int), lcs[old["id"].(int)-1], 24)
		},
		func(cs map[string]any) (string, string) {
			return "prices-long:" + fmt.Sprint(cs["why"]), fmt.Sprintf("price.Prices (prices with up to 12 decimals): %v for V=%v decls=%v\ndistinct results over repeated runs: %v", cs["why"], cs["v"], cs["decls"], cs["outs"])
		})
}
