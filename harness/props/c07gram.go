package props

import (
	"encoding/json"
	"fmt"
	"math/rand"
	"strings"
	"time"

	"kv/core"

	"github.com/sboehler/knut/lib/syntax/directives"
	"github.com/sboehler/knut/lib/syntax/parser"
)

type gramCase struct {
	Items []string `json:"items"`
	OK    bool     `json:"ok"`
	Dirs  []struct {
		Kind   string `json:"kind"`
		Perf   bool   `json:"perf"`
		Accrue bool   `json:"accrue"`
	} `json:"dirs"`
}

// concretise renders one item of the grammar model in one of several layouts.
func concretise(kind string, rng *rand.Rand, last bool) string {
	ws := []string{" ", "  ", "\t", " \t "}[rng.Intn(4)]
	nl := "\n"
	if rng.Intn(6) == 0 {
		nl = "\r\n"
	}
	if rng.Intn(5) == 0 {
		nl = "  " + nl
	}
	end := nl
	if last && rng.Intn(3) == 0 {
		end = "" // no final newline
	}
	acct := []string{"Assets:Bank", "Expenses:Café:Crème", "Liabilities:A1:B2"}[rng.Intn(3)]
	switch kind {
	case "blank":
		return []string{"\n", "  \n", "\t\r\n"}[rng.Intn(3)]
	case "comment":
		return []string{"# note", "// note", "* heading", "#é accent", "#"}[rng.Intn(5)] + nl
	case "open":
		return "2020-01-01" + ws + "open" + ws + acct + end
	case "close":
		return "2020-12-31" + ws + "close" + ws + acct + end
	case "price":
		return "2020-01-02" + ws + "price" + ws + "USD" + ws + "0.93" + ws + "CHF" + end
	case "balance1":
		return "2020-01-03" + ws + "balance" + ws + acct + ws + "-12.50" + ws + "CHF" + end
	case "include":
		return "include" + ws + "\"sub/other.knut\"" + end
	case "balanceN":
		return "2020-01-04" + ws + "balance" + nl + acct + ws + "1" + ws + "CHF" + nl + "Assets:Bank" + ws + "2.5" + ws + "USD" + end
	case "trx1":
		return "2020-01-05" + ws + "\"one booking\"" + nl + "Assets:Bank" + ws + acct + "X" + ws + "10" + ws + "CHF" + end
	case "trx2":
		return "2020-01-06" + ws + "\"two\nlines\"" + nl + "Assets:Bank" + ws + "Expenses:Food" + ws + "10.00" + ws + "CHF" + nl + "$dividend" + ws + "Assets:Bank" + ws + "-3" + ws + "USD" + end
	case "perf":
		return []string{"@performance(USD)", "@performance( USD , CHF )", "@performance()"}[rng.Intn(3)] + nl
	case "accrue":
		return "@accrue" + ws + []string{"daily", "weekly", "monthly", "quarterly"}[rng.Intn(4)] + ws + "2020-01-01" + ws + "2020-12-31" + ws + "Assets:Accrual" + nl
	// damaged variants
	case "badword":
		return "2020-01-01" + ws + "opne" + ws + acct + end
	case "nodate":
		return "open" + ws + acct + end
	case "stray":
		return []string{"!x", "-- not a comment", "(", "/ single slash"}[rng.Intn(4)] + end
	case "indented":
		return " 2020-01-01 open " + acct + end
	case "badaccount":
		return "2020-01-01" + ws + "open" + ws + "Assets::Bank" + end
	case "unterminated":
		return "2020-01-07" + ws + "\"no closing quote" + nl + "Assets:Bank Expenses:Food 1 CHF" + end
	}
	return ""
}

func kindOfDirective(d directives.Directive) string {
	switch t := d.Directive.(type) {
	case directives.Open:
		return "open"
	case directives.Close:
		return "close"
	case directives.Price:
		return "price"
	case directives.Include:
		return "include"
	case directives.Assertion:
		if len(t.Balances) == 1 {
			return "balance1"
		}
		return "balanceN"
	case directives.Transaction:
		return fmt.Sprintf("trx%d", len(t.Bookings))
	}
	return "?"
}

// c07grammar replays every item sequence of the Grammar.tla scope, concretised in a few random
// layouts, through the real parser: verdict, kinds of the directives in order, and the presence of
// annotations must be the model's.
func c07grammar(c *core.Ctx) {
	r := c.TLC(core.TLCOpts{Spec: "Grammar", Cfg: c.TierCfg("MC_Grammar"), Workers: 8, Timeout: 30 * time.Minute, Heap: "8g"})
	if !r.OK {
		c.Infra("Grammar generation failed: %s", r.ErrorText)
		return
	}
	c.Add("states", r.Distinct)
	c.Add("transitions", r.Generated)
	var gcs []gramCase
	for _, ln := range r.Printed {
		u := core.Unquote(ln)
		if !strings.HasPrefix(u, "CASE ") {
			continue
		}
		var g gramCase
		if err := json.Unmarshal([]byte(u[5:]), &g); err != nil {
			c.Infra("bad grammar CASE: %v", err)
			return
		}
		gcs = append(gcs, g)
	}
	layouts := c.Pick(3, 5)
	type bad struct {
		text, msg string
		g         *gramCase
	}
	bads := make([]*bad, len(gcs))
	core.Parallel(len(gcs), func(i int) {
		g := &gcs[i]
		rng := rand.New(rand.NewSource(c.Seed*7919 + int64(i)))
		for l := 0; l < layouts; l++ {
			var b strings.Builder
			for k, it := range g.Items {
				b.WriteString(concretise(it, rng, k == len(g.Items)-1))
			}
			text := b.String()
			msg := ""
			func() {
				defer func() {
					if rec := recover(); rec != nil {
						msg = fmt.Sprint("panic: ", rec)
					}
				}()
				p := parser.New(text, "g.knut")
				if err := p.Advance(); err != nil {
					if g.OK {
						msg = "rejected: " + err.Error()
					}
					return
				}
				f, err := p.ParseFile()
				if (err == nil) != g.OK {
					msg = fmt.Sprintf("model says parses=%v, parser says err=%v", g.OK, err)
					return
				}
				if err != nil {
					return
				}
				if len(f.Directives) != len(g.Dirs) {
					msg = fmt.Sprintf("%d directives, model has %d", len(f.Directives), len(g.Dirs))
					return
				}
				for k, d := range f.Directives {
					if kindOfDirective(d) != g.Dirs[k].Kind {
						msg = fmt.Sprintf("directive %d is %s, model has %s", k+1, kindOfDirective(d), g.Dirs[k].Kind)
						return
					}
					if t, ok := d.Directive.(directives.Transaction); ok {
						if !t.Addons.Performance.Empty() != g.Dirs[k].Perf || !t.Addons.Accrual.Empty() != g.Dirs[k].Accrue {
							msg = fmt.Sprintf("directive %d: annotations perf=%v accrue=%v, model has %v %v", k+1, !t.Addons.Performance.Empty(), !t.Addons.Accrual.Empty(), g.Dirs[k].Perf, g.Dirs[k].Accrue)
							return
						}
					}
				}
			}()
			if msg != "" {
				bads[i] = &bad{text, msg, g}
				return
			}
		}
	})
	c.Add("generated_behaviours_replayed", len(gcs)*layouts)
	c.Add("evaluations", len(gcs)*layouts)
	c.Set("grammar_item_sequences", len(gcs))
	reported := 0
	for _, b := range bads {
		if b == nil {
			continue
		}
		reported++
		if reported <= 3 {
			c.Violate("grammar:parser-differs-from-model", fmt.Sprintf("items %v: %s\ntext: %q", b.g.Items, b.msg, b.text), map[string]string{"input.knut": b.text, "case.json": core.JSON(b.g)})
		}
	}
	c.Sample(map[string]any{"grammar_items": gcs[len(gcs)/2].Items, "parses": gcs[len(gcs)/2].OK})
}
