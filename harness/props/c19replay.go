package props

import (
	"encoding/json"
	"fmt"
	"math/rand"
	"sort"
	"strings"
	"time"

	"kv/core"
	"kv/kj"
)

// Directed replay (C19): TLC enumerates, for a pipeline of `of` stages over `nd` days and an optional failing
// (stage, day), every order in which the processor callbacks can run (MC_PipelineOrders: Pipeline.tla plus the
// history of its Work steps, one line per terminal state). The Gate hook forces the real Journal.Process through
// each of these orders; the run is then judged like every other recorded run (step by step against Pipeline.tla,
// census, result) and, in addition, must have followed the order and produced the result of the reference run.

type modelOrder struct {
	Of    int      `json:"of"`
	ND    int      `json:"nd"`
	FS    int      `json:"fs"`
	FN    int      `json:"fn"`
	Order [][2]int `json:"order"`
	Res   string   `json:"res"`
	ErrW  int      `json:"errw"`
	Done  []int    `json:"done"`
}

type replayFamily struct {
	Cmd     []string
	ND      int
	Variant string // none | lifecycle | price
	FailDay int
	Valued  bool
}

func (f replayFamily) text() string {
	var b strings.Builder
	for _, a := range []string{"Assets:Bank", "Assets:Depot", "Equity:Equity", "Expenses:Food"} {
		fmt.Fprintf(&b, "2020-01-01 open %s\n", a)
	}
	if f.Valued {
		b.WriteString("2020-01-01 price USD 0.9 CHF\n2020-01-02 price USD 0.95 CHF\n")
	}
	for k := 1; k <= f.ND; k++ {
		fmt.Fprintf(&b, "\n2020-01-%02d \"day %d\"\nEquity:Equity Assets:Bank %d CHF\n", k, k, 10*k)
		if f.Valued {
			fmt.Fprintf(&b, "\n2020-01-%02d \"shares %d\"\nEquity:Equity Assets:Depot %d USD\n", k, k, k)
		}
		if k == f.FailDay {
			switch f.Variant {
			case "lifecycle":
				fmt.Fprintf(&b, "\n2020-01-%02d \"unopened\"\nEquity:Equity Assets:Nope 1 CHF\n", k)
			case "price":
				fmt.Fprintf(&b, "\n2020-01-%02d \"no price\"\nEquity:Equity Assets:Depot 3 XAU\n", k)
			}
		}
	}
	return b.String()
}

// modelOrders asks TLC for the Work orders of Pipeline.tla with the given constants: exhaustively where the
// state space is small, by simulation otherwise; at most limit of them (a seeded selection).
func modelOrders(c *core.Ctx, rng *rand.Rand, of, nd, fs, fn, limit int) ([]modelOrder, bool) {
	cfg := fmt.Sprintf("SPECIFICATION Spec\nCONSTANTS\n  NStages = %d\n  NItems = %d\n  FailS = %d\n  FailN = %d\nINVARIANT Emit\nCHECK_DEADLOCK FALSE\n", of, nd, fs, fn)
	exhaustive := nd <= 2 || (of <= 4 && nd <= 3) || (core.Thorough(c) && ((of <= 5 && nd <= 3) || (of <= 4 && nd <= 4)))
	if fs != 0 {
		// after a failure the silent steps (close, record, cancel, notice) of all stages interleave freely: the state
		// graph with the order history grows to millions of states for a few dozen orders; beyond small
		// pipelines the orders are sampled by simulation
		exhaustive = (of*nd <= 9 && of <= 4) || (core.Thorough(c) && of*nd <= 12)
	}
	o := core.TLCOpts{Spec: "MC_PipelineOrders", Cfg: "orders.cfg", Files: map[string][]byte{"orders.cfg": []byte(cfg)}, Workers: 2, Heap: "2g", Timeout: 20 * time.Minute}
	if !exhaustive {
		o.Simulate, o.Depth, o.Seed, o.Workers = fmt.Sprintf("num=%d", 4*limit+40), 400, c.Seed, 1
	}
	r := c.TLC(o)
	if !r.OK {
		c.Infra("MC_PipelineOrders %dx%d fail (%d,%d): %s", of, nd, fs, fn, tailStr(r.Out, 400))
		return nil, false
	}
	seen := map[string]bool{}
	var out []modelOrder
	for _, ln := range r.Printed {
		s := core.Unquote(ln)
		if !strings.HasPrefix(s, "CASE ") {
			continue
		}
		var m modelOrder
		if err := json.Unmarshal([]byte(s[5:]), &m); err != nil {
			c.Infra("MC_PipelineOrders: unreadable line %q", s)
			return nil, false
		}
		k := fmt.Sprint(m.Order)
		if !seen[k] {
			seen[k] = true
			out = append(out, m)
		}
	}
	sort.Slice(out, func(a, b int) bool { return fmt.Sprint(out[a].Order) < fmt.Sprint(out[b].Order) })
	c.Add("model_orders", len(out))
	c.Set(fmt.Sprintf("orders_%dx%d_fail_%d_%d", of, nd, fs, fn), fmt.Sprintf("%d orders, %d states, %.0fs", len(out), r.Distinct, r.WallS))
	if exhaustive {
		c.Add("order_families_exhaustive", 1)
	}
	if len(out) > limit {
		rng.Shuffle(len(out), func(a, b int) { out[a], out[b] = out[b], out[a] })
		out = out[:limit]
	}
	return out, true
}

// realisedOrder is the order of the processor callbacks of the first Process call as logged by the hooks.
func realisedOrder(evs []hookEvent) (order [][2]int, abandoned bool) {
	days := map[string]bool{}
	for _, e := range evs {
		if e.Ev == "StageDay" && e.Run == 1 {
			days[e.Day] = true
		}
		if e.Ev == "GateTimeout" {
			abandoned = true
		}
	}
	var ds []string
	for d := range days {
		ds = append(ds, d)
	}
	sort.Strings(ds)
	idx := map[string]int{}
	for i, d := range ds {
		idx[d] = i + 1
	}
	for _, e := range evs {
		if e.Ev == "StageDay" && e.Run == 1 {
			order = append(order, [2]int{e.Stage, idx[e.Day]})
		}
	}
	return
}

// replayScenarios builds the forced scenarios: per family a reference run tells the number of stages, the
// number of days and which (stage, day) fails; TLC supplies the orders for exactly that pipeline.
func replayScenarios(c *core.Ctx, rng *rand.Rand, bin, root string, nextID *int) []c19Scenario {
	var fams []replayFamily
	cmds := []struct {
		cmd    []string
		valued bool
	}{
		{[]string{"balance", "--color=false", "--close=false"}, false},
		{[]string{"balance", "--color=false"}, false},
		{[]string{"transcode", "-v", "CHF"}, true},
		{[]string{"balance", "--color=false", "-v", "CHF", "--close=false"}, true},
		{[]string{"balance", "--color=false", "-v", "CHF"}, true},
	}
	nds := []int{2, 3}
	if core.Thorough(c) {
		nds = []int{2, 3, 4}
	}
	for ci, cm := range cmds {
		for _, nd := range nds {
			if !core.Thorough(c) && ci >= 2 && nd > 2 {
				continue // quick tier: the pipelines of four to six stages over two days only (every order, exhaustively)
			}
			if ci >= 2 && nd > 3 {
				continue // four days: the unvalued pipelines (3 and 4 stages) only
			}
			fams = append(fams, replayFamily{Cmd: cm.cmd, ND: nd, Variant: "none", Valued: cm.valued})
			for n := 1; n <= nd; n++ {
				fams = append(fams, replayFamily{Cmd: cm.cmd, ND: nd, Variant: "lifecycle", FailDay: n, Valued: cm.valued})
				if cm.valued && (n == 1 || core.Thorough(c)) {
					fams = append(fams, replayFamily{Cmd: cm.cmd, ND: nd, Variant: "price", FailDay: n, Valued: cm.valued})
				}
			}
		}
	}
	limit := c.Pick(40, 1500)
	// reference runs (in parallel): number of stages, number of days, which (stage, day) fails, stdout
	type refInfo struct {
		ok         bool
		of, fs, fn int
		stdout     string
		lay        *kj.Layout
	}
	refs := make([]refInfo, len(fams))
	core.Parallel(len(fams), func(i int) {
		f := fams[i]
		lay := &kj.Layout{Root: "main.knut", Files: map[string]string{"main.knut": f.text()}, Order: []string{"main.knut"}}
		ref := c19Scenario{ID: 1000000 + i, Layout: lay, Cmd: f.Cmd, Variant: "replay-ref", ExpectFail: f.Variant != "none", TrxExpected: -1, Files: 1, Seed: 1, Procs: 4}
		rc := runC19(c, bin, root, ref)
		runs := rc["runs"].([]any)
		if rc["timedOut"] == true || len(runs) == 0 {
			c.Infra("replay family %v %s: reference run gave no pipeline events", f.Cmd, f.Variant)
			return
		}
		r0 := runs[0].(map[string]any)
		of, days := r0["of"].(int), r0["days"].(int)
		fs, fn := 0, 0
		for _, e := range r0["ev"].([]any) {
			em := e.(map[string]any)
			if em["err"] == true {
				fs, fn = em["s"].(int), em["d"].(int)
			}
		}
		if days != f.ND || (f.Variant == "none") != (fs == 0) || (fs != 0 && fn != f.FailDay) || (rc["exit"].(int) != 0) != (f.Variant != "none") {
			c.Infra("replay family %v %s day %d: reference run has %d days, failure at (%d,%d), exit %v", f.Cmd, f.Variant, f.FailDay, days, fs, fn, rc["exit"])
			return
		}
		refs[i] = refInfo{ok: true, of: of, fs: fs, fn: fn, stdout: fmt.Sprint(rc["stdout"]), lay: lay}
	})
	// the orders of every distinct pipeline (stages, days, failing step), from TLC, in parallel
	var keys [][4]int
	seenKey := map[[4]int]bool{}
	for i, f := range fams {
		if k := [4]int{refs[i].of, f.ND, refs[i].fs, refs[i].fn}; refs[i].ok && !seenKey[k] {
			seenKey[k] = true
			keys = append(keys, k)
		}
	}
	orderSets := make([][]modelOrder, len(keys))
	okSets := make([]bool, len(keys))
	core.Parallel(len(keys), func(i int) {
		k := keys[i]
		lim := limit
		if k[2] != 0 {
			// runs that fail are validated with the full search of Trace_PipelineSteps: fewer of them, few of the long ones
			lim = 40
			if k[0] >= 5 {
				lim = 12
			}
		}
		orderSets[i], okSets[i] = modelOrders(c, rand.New(rand.NewSource(c.Seed+int64(i))), k[0], k[1], k[2], k[3], lim)
	})
	cache := map[[4]int][]modelOrder{}
	for i, k := range keys {
		if okSets[i] {
			cache[k] = orderSets[i]
		}
	}
	var out []c19Scenario
	for i, f := range fams {
		if !refs[i].ok {
			continue
		}
		orders, ok := cache[[4]int{refs[i].of, f.ND, refs[i].fs, refs[i].fn}]
		if !ok {
			continue
		}
		for k, mo := range orders {
			*nextID++
			out = append(out, c19Scenario{ID: *nextID, Layout: refs[i].lay, Cmd: f.Cmd, Variant: "replay-" + f.Variant, ExpectFail: f.Variant != "none", TrxExpected: -1, Files: 1,
				Seed: 1 + k%5, Procs: []int{1, 2, 4, 16}[k%4], Schedule: mo.Order, RefStdout: refs[i].stdout, Model: &orders[k]})
		}
	}
	return out
}
