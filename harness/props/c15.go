package props

import (
	"fmt"
	"math/rand"
	"os"
	"path/filepath"
	"strings"
	"time"

	"kv/core"

	"github.com/sboehler/knut/lib/syntax/directives"
	"github.com/sboehler/knut/lib/syntax/parser"
)

type inferJob struct {
	P        string
	Training string
	Target   string
	Extra    map[string]string // further training files included by the training file
}

func bookingsOf(text string) (bk []any, accounts map[string]bool, ok bool) {
	accounts = map[string]bool{}
	defer func() {
		if recover() != nil {
			ok = false
		}
	}()
	p := parser.New(text, "mem")
	if err := p.Advance(); err != nil {
		return nil, accounts, false
	}
	f, err := p.ParseFile()
	if err != nil {
		return nil, accounts, false
	}
	bk = []any{}
	for _, d := range f.Directives {
		if t, isT := d.Directive.(directives.Transaction); isT {
			for _, b := range t.Bookings {
				cr, dr := b.Credit.Extract(), b.Debit.Extract()
				bk = append(bk, map[string]any{"cr": cr, "dr": dr, "macro": b.Credit.Macro || b.Debit.Macro})
			}
		}
	}
	return bk, accounts, true
}

func toks(s string) []any {
	out := []any{}
	for _, t := range strings.Fields(s) {
		out = append(out, t)
	}
	return out
}

func inferCase(bin, root string, id int, jb inferJob) map[string]any {
	dir := filepath.Join(root, fmt.Sprintf("i%d", id))
	os.RemoveAll(dir)
	os.MkdirAll(dir, 0o755)
	defer os.RemoveAll(dir)
	os.WriteFile(filepath.Join(dir, "train.knut"), []byte(jb.Training), 0o644)
	for p, c := range jb.Extra {
		os.MkdirAll(filepath.Dir(filepath.Join(dir, p)), 0o755)
		os.WriteFile(filepath.Join(dir, p), []byte(c), 0o644)
	}
	os.WriteFile(filepath.Join(dir, "target.knut"), []byte(jb.Target), 0o644)
	os.WriteFile(filepath.Join(dir, "fmt.knut"), []byte(jb.Target), 0o644)
	os.WriteFile(filepath.Join(dir, "inplace.knut"), []byte(jb.Target), 0o644)
	run := func(k int, args ...string) core.RunResult {
		return core.Run(core.RunOpts{Dir: dir, Timeout: 30 * time.Second, Env: []string{fmt.Sprintf("GOMAXPROCS=%d", []int{1, 4, 16}[k%3]), fmt.Sprintf("VERIF_SCHED_SEED=%d", id*31+k)}}, bin, args...)
	}
	run(0, "format", "fmt.knut")
	formatted, _ := os.ReadFile(filepath.Join(dir, "fmt.knut"))
	r := run(0, "infer", "-a", jb.P, "-t", "train.knut", "target.knut")
	same := true
	for k := 1; k < 12; k++ {
		r2 := run(k, "infer", "-a", jb.P, "-t", "train.knut", "target.knut")
		if r2.Stdout != r.Stdout || r2.Exit != r.Exit {
			same = false
		}
	}
	ri := run(1, "infer", "-a", jb.P, "-i", "-t", "train.knut", "inplace.knut")
	inpl, _ := os.ReadFile(filepath.Join(dir, "inplace.knut"))
	before, _, _ := bookingsOf(string(formatted))
	after, _, parses := bookingsOf(r.Stdout)
	// candidates: accounts of training bookings that do not touch the placeholder (and are no macros)
	all := jb.Training
	for _, c := range jb.Extra {
		all += "\n" + c
	}
	tb, _, _ := bookingsOf(all)
	cset := map[string]bool{}
	for _, b := range tb {
		m := b.(map[string]any)
		if m["macro"].(bool) || m["cr"] == jb.P || m["dr"] == jb.P {
			continue
		}
		cset[m["cr"].(string)], cset[m["dr"].(string)] = true, true
	}
	cands := []any{}
	for a := range cset {
		cands = append(cands, a)
	}
	strip := func(bs []any) []any {
		out := []any{}
		for _, b := range bs {
			m := b.(map[string]any)
			out = append(out, map[string]any{"cr": m["cr"], "dr": m["dr"]})
		}
		return out
	}
	if after == nil {
		after = []any{}
	}
	if before == nil {
		before = []any{}
	}
	return map[string]any{"id": id, "P": jb.P, "cands": cands, "before": strip(before), "after": strip(after), "tin": toks(string(formatted)), "tout": toks(r.Stdout),
		"parses": parses, "runsSame": same, "exit": r.Exit, "inplaceSame": ri.Exit == r.Exit && string(inpl) == r.Stdout,
		"training": jb.Training, "target": jb.Target, "stdout": r.Stdout, "stderr": r.Stderr}
}

func C15(c *core.Ctx) {
	c.Set("rule", "training journals (empty, opens only, 1-12 bookings with tied descriptions and counts, some touching the placeholder) x target journals (placeholder on the credit side, the debit side, both sides, several per transaction, none; comments and irregular layout) x placeholder names; each run 8 times with different GOMAXPROCS, plus --inplace; distinct by (training, target); non-trivial = target with >= 1 placeholder")
	c.Trusted("TLC + Json module", "knut's parser as reader of bookings", "white-space tokeniser")
	c.MC("MC_Infer", "MC_Infer_fixed.cfg", 8, 10*time.Minute)
	if r := c.TLC(core.TLCOpts{Spec: "MC_Infer", Cfg: "MC_Infer_hazard.cfg", Workers: 4, Timeout: 5 * time.Minute}); r.Violated != "SameEveryRun" {
		c.Infra("MC_Infer_hazard: expected SameEveryRun to be violated in map order, got %q", r.Violated)
	}
	bin := c.Knut("verif")
	root := filepath.Join(c.Work, "c15")
	os.MkdirAll(root, 0o755)
	rng := rand.New(rand.NewSource(c.Seed))
	n := c.Pick(160, 3000)
	jobs := make([]inferJob, n)
	accts := []string{"Expenses:Food", "Expenses:Rent", "Expenses:Fun:Cinema", "Assets:Cash", "Income:Gifts", "Liabilities:Card", "Expenses:Büro", "Expenses:Café:Zürich"}
	words := []string{"coop", "migros", "rent", "cinema", "atm", "gift", "über", "café"}
	for i := range jobs {
		P := []string{"Expenses:TBD", "Expenses:TBD", "Assets:Unknown", "Equity:Todo"}[rng.Intn(4)]
		var tr strings.Builder
		ntr := []int{0, 0, 1, 2, 4, 8, 12}[rng.Intn(7)]
		if rng.Intn(4) > 0 {
			tr.WriteString("2020-01-01 open Assets:Bank\n\n")
		}
		for k := 0; k < ntr; k++ {
			a1, a2 := accts[rng.Intn(len(accts))], "Assets:Bank"
			if rng.Intn(3) == 0 {
				a2 = accts[rng.Intn(len(accts))]
			}
			if rng.Intn(8) == 0 {
				a1 = P
			}
			if a1 == a2 {
				continue
			}
			fmt.Fprintf(&tr, "2020-02-%02d \"%s %s\"\n%s %s %d CHF\n", 1+k%28, words[rng.Intn(len(words))], words[rng.Intn(len(words))], a2, a1, 5+rng.Intn(3))
			// transactions with several bookings: a booking on the placeholder (or a second real one) before a real one
			for extra := rng.Intn(3); extra > 0 && rng.Intn(2) == 0; extra-- {
				b1, b2 := accts[rng.Intn(len(accts))], accts[rng.Intn(len(accts))]
				if b1 != b2 {
					fmt.Fprintf(&tr, "%s %s %d CHF\n", b1, b2, 1+rng.Intn(9))
				}
			}
			tr.WriteString("\n")
		}
		if ntr > 0 && rng.Intn(4) == 0 {
			// an account that occurs only after a placeholder booking of its transaction
			fmt.Fprintf(&tr, "2020-02-27 \"%s only here\"\nAssets:Bank %s 3 CHF\nAssets:Bank Expenses:OnlyHere 4 CHF\n\n", words[rng.Intn(len(words))], P)
		}
		var tg strings.Builder
		tg.WriteString("# target file\n\n2020-01-01 open Assets:Bank\n\n")
		for k := 0; k < 1+rng.Intn(5); k++ {
			fmt.Fprintf(&tg, "2020-03-%02d   \"%s %s\"\n", 1+k, words[rng.Intn(len(words))], words[rng.Intn(len(words))])
			for b := 0; b < 1+rng.Intn(2); b++ {
				cr, dr := "Assets:Bank", P
				switch rng.Intn(6) {
				case 0:
					cr, dr = P, "Assets:Bank"
				case 1:
					cr, dr = P, P
				case 2:
					cr, dr = "Assets:Bank", accts[rng.Intn(len(accts))]
				case 3:
					cr, dr = accts[rng.Intn(len(accts))], P
				}
				fmt.Fprintf(&tg, "%s    %s  %d.%d0 CHF\n", cr, dr, 1+rng.Intn(50), rng.Intn(10))
			}
			tg.WriteString("\n// note\n\n")
		}
		jobs[i] = inferJob{P: P, Training: tr.String(), Target: tg.String()}
		if i%3 == 2 {
			// the training journal split over included files; the same description booked to a
			// different account in each file: an exact tie between candidates from different files
			extra := map[string]string{}
			var main strings.Builder
			main.WriteString("2020-01-01 open Assets:Bank\n\n")
			w := words[rng.Intn(len(words))]
			for f := 0; f < 2+rng.Intn(4); f++ {
				name := fmt.Sprintf("parts/t%d.knut", f)
				fmt.Fprintf(&main, "include \"%s\"\n", name)
				var b strings.Builder
				for k := 0; k < 1+rng.Intn(2); k++ {
					fmt.Fprintf(&b, "2020-02-%02d \"%s shop\"\nAssets:Bank %s 7 CHF\n\n", 1+k, w, accts[f%len(accts)])
				}
				extra[name] = b.String()
			}
			jobs[i] = inferJob{P: P, Training: main.String(), Target: fmt.Sprintf("2020-03-01 \"%s shop\"\nAssets:Bank %s 7 CHF\n", w, P), Extra: extra}
		}
	}
	// directed shapes: the placeholder text outside bookings, look-alike accounts, unusual placeholder names,
	// training == target, a diamond of training includes, odd layouts and descriptions
	train := "2020-01-01 open Assets:Bank\n\n2020-02-01 \"coop food\"\nAssets:Bank Expenses:Food 5 CHF\n\n2020-02-02 \"rent\"\nAssets:Bank Expenses:Rent 900 CHF\n\n2020-02-03 \"coop food\"\nAssets:Bank Expenses:Food 7 CHF\n"
	directed := []inferJob{
		{P: "Expenses:TBD", Training: train, Target: "# Expenses:TBD is the placeholder\n* Expenses:TBD\n// Expenses:TBD Expenses:TBD\n2020-01-01 open Expenses:TBD\n2020-01-01 open Assets:Bank\n\n@accrue monthly 2020-01-01 2020-03-31 Expenses:TBD\n2020-03-01 \"coop Expenses:TBD food\"\nAssets:Bank Expenses:TBD 5 CHF\n\n2020-03-02 balance Expenses:TBD 0 CHF\n\n2020-03-02 balance\nExpenses:TBD 0 CHF\nExpenses:TBD 0 USD\n\n2020-03-03 price TBD 1 CHF\n2020-03-04 close Expenses:TBD\n"},
		{P: "Expenses:TBD", Training: train, Target: "2020-03-01 \"coop food\"\nAssets:Bank Expenses:TBD:Sub 5 CHF\nAssets:Bank Expenses:TB 5 CHF\nAssets:Bank expenses:tbd 5 CHF\nAssets:Bank Expenses:TBD 5 CHF\nExpenses:TBDX Expenses:TBD 5 CHF\n"},
		{P: "Ausgaben:Üñbekannt:未定", Training: train, Target: "2020-03-01 \"coop food\"\nAssets:Bank Ausgaben:Üñbekannt:未定 5 CHF\nAusgaben:Üñbekannt:未定 Assets:Bank 5 CHF\n"},
		{P: "X", Training: train, Target: "2020-03-01 \"rent\"\nAssets:Bank X 900 CHF\nX X 1 CHF\n"},
		{P: "1:2", Training: train, Target: "2020-03-01 \"rent\"\nAssets:Bank 1:2 900 CHF\n"},
		{P: "Expenses:Food", Training: train, Target: train}, // the placeholder is a heavily used real account and training == target
		{P: "Expenses:TBD", Training: "include \"a.knut\"\ninclude \"b.knut\"\n", Target: "2020-03-01 \"coop food\"\nAssets:Bank Expenses:TBD 5 CHF\n",
			Extra: map[string]string{"a.knut": "include \"shared.knut\"\n", "b.knut": "include \"./shared.knut\"\n2020-02-09 \"coop food\"\nAssets:Bank Expenses:Rent 5 CHF\n", "shared.knut": "2020-02-01 \"coop food\"\nAssets:Bank Expenses:Food 5 CHF\n"}},
		{P: "Expenses:TBD", Training: train, Target: "2020-03-01\t\"coop\u00a0food\r\nsecond line\n\nafter a blank line\"\r\nAssets:Bank\tExpenses:TBD   5 CHF  \r\nExpenses:TBD \t Assets:Bank -007.50 CHF\r\n"},
		{P: "Expenses:TBD", Training: "", Target: "2020-03-01 \"\"\nAssets:Bank Expenses:TBD 5 CHF\n\n2020-03-01 \" \"\nExpenses:TBD Expenses:TBD 0 CHF"},
		{P: "Expenses:TBD", Training: "2020-02-01 \"self\"\nExpenses:Food Expenses:Food 1 CHF\n", Target: "2020-03-01 \"self\"\nExpenses:TBD Expenses:TBD 1 CHF\nExpenses:Food Expenses:TBD 1 CHF\nAssets:Bank Expenses:TBD 1 CHF\n"},
		{P: "Expenses:TBD", Training: train, Target: "@performance( CHF , USD )\n@accrue monthly 2020-01-01 2020-03-31 Assets:Bank\n2020-03-01 \"coop food\"\nAssets:Bank Expenses:TBD 5 CHF\n\n@accrue daily 2020-01-01 2020-01-03 Assets:Bank\n@performance()\n2020-03-02 \"rent\"\nExpenses:TBD Assets:Bank 5 CHF\n\ninclude \"does/not/exist.knut\"\n"},
	}
	jobs = append(jobs, directed...)
	n = len(jobs)
	cases := make([]map[string]any, n)
	core.Parallel(n, func(i int) { cases[i] = inferCase(bin, root, i+1, jobs[i]) })
	nt := 0
	for i, cs := range cases {
		if strings.Contains(jobs[i].Target, jobs[i].P) && cs["exit"] == 0 {
			nt++
		}
	}
	c.Add("evaluations", n)
	c.Add("distinct_nontrivial", nt)
	c.Sample(map[string]any{"training": jobs[0].Training, "target": jobs[0].Target, "placeholder": jobs[0].P, "output": cases[0]["stdout"]})
	c.JudgeAndReport("Trace_Infer", "Trace_Infer.cfg", cases, 8,
		func(old map[string]any) map[string]any {
			return inferCase(bin, root, old["id"].(int), jobs[old["id"].(int)-1])
		},
		func(cs map[string]any) (string, string) {
			return "infer:" + fmt.Sprint(cs["why"]), fmt.Sprintf("knut infer -a %v: %v\n--- training\n%v\n--- target\n%v\n--- output\n%v\n%v", cs["P"], cs["why"], cs["training"], cs["target"], cs["stdout"], cs["stderr"])
		})
}
