package props

import (
	"fmt"
	"math/rand"
	"time"

	"kv/core"

	"github.com/sboehler/knut/lib/common/date"
)

var ivNames = []string{"once", "daily", "weekly", "monthly", "quarterly", "yearly"}
var ivVals = []date.Interval{date.Once, date.Daily, date.Weekly, date.Monthly, date.Quarterly, date.Yearly}

const noColumn = -1000000

func dayToTime(z int) time.Time { return time.Unix(int64(z)*86400, 0).UTC() }
func timeToDay(t time.Time) int {
	if t.IsZero() {
		return noColumn
	}
	u := t.Unix()
	if u >= 0 {
		return int(u / 86400)
	}
	return int(-((-u + 86399) / 86400))
}

// calCase runs the real date package on one (window, interval, last).
func calCase(id, s, e, iv, last int) map[string]any {
	cs := map[string]any{"id": id, "kind": "lib", "s": s, "e": e, "iv": ivNames[iv], "last": last}
	func() {
		defer func() {
			if r := recover(); r != nil {
				cs["panic"] = fmt.Sprint(r)
			}
		}()
		part := date.NewPartition(date.Period{Start: dayToTime(s), End: dayToTime(e)}, ivVals[iv], last)
		sd, ed := part.StartDates(), part.EndDates()
		ps := []any{}
		pts := map[int]bool{s - 9: true, s - 1: true, s: true, s + 1: true, e - 1: true, e: true, e + 1: true, e + 9: true, (s + e) / 2: true}
		for k := range sd {
			a, b := timeToDay(sd[k]), timeToDay(ed[k])
			ps = append(ps, map[string]any{"s": a, "e": b})
			if len(sd) <= 40 || k < 5 || k > len(sd)-6 {
				pts[a-1], pts[a], pts[b], pts[b+1] = true, true, true, true
			}
		}
		if len(sd) != len(ed) || part.Size() != len(sd) {
			cs["panic"] = "StartDates/EndDates/Size disagree"
		}
		cs["periods"] = ps
		al, ct := []any{}, []any{}
		align := part.Align()
		for d := range pts {
			al = append(al, map[string]any{"d": d, "r": timeToDay(align(dayToTime(d)))})
			ct = append(ct, map[string]any{"d": d, "r": part.Contains(dayToTime(d))})
		}
		cs["align"], cs["contains"] = al, ct
	}()
	if _, bad := cs["panic"]; bad {
		// a panic is not a partition: give TLC an observation it must reject
		cs["periods"] = []any{map[string]any{"s": noColumn, "e": noColumn}}
		cs["align"], cs["contains"] = []any{}, []any{}
	}
	return cs
}

func C11(c *core.Ctx) {
	c.Ev.Level = "model_checking"
	c.Set("rule", "lib cases: every (window, interval, last) is distinct; non-trivial = the expected partition has >= 2 periods or `last` cuts it or start > end. cli cases: distinct (from,to,interval,last) on a fixed journal")
	c.Trusted("TLC + CommunityModules Json", "Go time.Time <-> day-number conversion in the harness", "text-table header reader")
	cfg := "MC_Calendar_quick.cfg"
	if core.Thorough(c) {
		cfg = "MC_Calendar_thorough.cfg"
	}
	c.MC("MC_Calendar", cfg, 16, 30*time.Minute)

	rng := rand.New(rand.NewSource(c.Seed))
	var cases []map[string]any
	lasts := []int{-1, 0, 1, 2, 3, 7}
	id := 0
	nontrivial := 0
	add := func(s, e, iv, last int) {
		id++
		cs := calCase(id, s, e, iv, last)
		cases = append(cases, cs)
		if ps, ok := cs["periods"].([]any); ok && (len(ps) >= 2 || s > e) {
			nontrivial++
		}
	}
	// (G) the model's own scope: every window in a range around 2019-12-31 / 2020-02-29
	base, span := 18250, c.Pick(24, 75)
	for s := base; s <= base+span; s++ {
		for e := base - 2; e <= base+span; e++ {
			for iv := range ivNames {
				if core.Thorough(c) {
					for _, l := range lasts {
						add(s, e, iv, l)
					}
				} else {
					add(s, e, iv, lasts[(s+e+iv)%len(lasts)])
				}
			}
		}
	}
	c.Set("exhaustive_window_range", fmt.Sprintf("days %d..%d (2019-12-20 + %d), all 6 intervals", base, base+span, span))
	// (B) calendar boundaries: windows whose start and end are the first, 15th, last-but-one and last day of
	// every month of a year (leap and non-leap years), for the calendar-aligned intervals
	years := []int{2020, 2023, 2100, 1999, 2024}
	nyears := c.Pick(1, len(years))
	for yk := 0; yk < nyears; yk++ {
		y := years[(yk+int(c.Seed))%len(years)]
		var special []int
		for m := 1; m <= 12; m++ {
			first := timeToDay(time.Date(y, time.Month(m), 1, 0, 0, 0, 0, time.UTC))
			last := timeToDay(time.Date(y, time.Month(m)+1, 0, 0, 0, 0, 0, time.UTC))
			special = append(special, first, first+14, last-1, last)
		}
		for _, s := range special {
			for _, e := range special {
				if e < s-1 {
					continue
				}
				for _, iv := range []int{2, 3, 4, 5} {
					add(s, e, iv, lasts[(s+e+iv)%len(lasts)])
				}
			}
		}
	}
	// (V) random windows 1900..2100 incl. century rules, start > end
	lo, hi := -25567, 47846
	for k := 0; k < c.Pick(6000, 120000); k++ {
		s := lo + rng.Intn(hi-lo)
		var e int
		switch rng.Intn(5) {
		case 0:
			e = s + rng.Intn(12) - 4
		case 1:
			e = s + rng.Intn(120)
		case 2:
			e = s + rng.Intn(800)
		case 3:
			e = s + rng.Intn(3000)
		default:
			e = s - rng.Intn(400)
		}
		iv := rng.Intn(6)
		if e-s > 1200 && iv == 1 {
			iv = 3
		}
		l := lasts[rng.Intn(len(lasts))]
		if rng.Intn(4) == 0 {
			l = rng.Intn(40)
		}
		add(s, e, iv, l)
	}
	c.Add("evaluations", len(cases))
	c.Add("distinct_nontrivial", nontrivial)
	c.Sample(cases[len(cases)/3])
	c.Sample(cases[len(cases)-1])
	rerun := func(old map[string]any) map[string]any {
		iv := 0
		for k, n := range ivNames {
			if n == old["iv"] {
				iv = k
			}
		}
		return calCase(old["id"].(int), old["s"].(int), old["e"].(int), iv, old["last"].(int))
	}
	c.JudgeAndReport("Trace_Calendar", "Trace_Calendar.cfg", cases, 16, rerun, func(cs map[string]any) (string, string) {
		return "partition:" + fmt.Sprint(cs["iv"]), fmt.Sprintf("date.NewPartition/Align/Contains disagree with Calendar.tla for window %v..%v %v last=%v: observed %v", cs["s"], cs["e"], cs["iv"], cs["last"], cs["periods"])
	})
	c11cli(c, rng)
}
