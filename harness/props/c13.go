package props

import (
	"bytes"
	"encoding/csv"
	"fmt"
	"math/rand"
	"os"
	"path/filepath"
	"sort"
	"strings"
	"time"
	"unicode/utf8"

	"kv/core"
	"kv/kj"

	"github.com/sboehler/knut/lib/syntax/directives"
	"github.com/sboehler/knut/lib/syntax/parser"
	"github.com/shopspring/decimal"
)

type stEff struct {
	C  string
	V  int // scale 100
	F4 int // if non-zero: the value at scale 10^4 (fractional shares); V is then its rounding to scale 100
}

type stRow struct {
	Z     int
	Amt   int // signed effect on the import account, scale 100
	Fee   int
	Cur   string
	Text  string
	Bal   int
	Kind  string  // format-specific row type (brokerage formats)
	Extra []stEff // further effects on the import account (securities bought/sold, the other leg of a conversion)
}

// stPrice is a price the statement itself carries (scale 100 after the importer's rounding).
type stPrice struct {
	Z   int
	Raw int // value at scale 10^6 as written in the statement
}

type importerSpec struct {
	Name    string
	Args    []string
	Account string
	Fee     bool
	Multi   bool // several currencies in one statement
	Latin1  bool
	Bals    bool // the statement carries running balances that become assertions
	Write   func(rows []stRow) []byte
	Kinds   []string                                            // row types of brokerage formats
	Finals  bool                                                // the statement carries closing balances per commodity (asserted at its end date)
	WriteX  func(rows []stRow, finals []stEff, endZ int) []byte // writer for Finals formats
	Prices  func(prices []stPrice) []byte                       // price-only formats
}

func amt2(v int) string { return kj.Dec(v, 100) }
func dmy(z int) string  { return dayToTime(z).Format("02.01.2006") }

func csvBytes(sep rune, recs [][]string) []byte {
	var b bytes.Buffer
	w := csv.NewWriter(&b)
	w.Comma = sep
	for _, r := range recs {
		w.Write(r)
	}
	w.Flush()
	return b.Bytes()
}

func latin1(b []byte) []byte {
	var out []byte
	for _, r := range string(b) {
		if r < 256 {
			out = append(out, byte(r))
		} else {
			out = append(out, '?')
		}
	}
	return out
}

var importers = []importerSpec{
	{Name: "ch.postfinance", Args: []string{"--account", "Assets:Postfinance"}, Account: "Assets:Postfinance",
		Write: func(rows []stRow) []byte {
			var b bytes.Buffer
			b.WriteString("\ufeffBuchungsart:;=\"Alle Buchungen\"\nKonto:;=\"CH4609000000877991229\"\nWährung:;=\"CHF\"\n\nBuchungsdatum;Avisierungstext;Gutschrift in CHF;Lastschrift in CHF;Label;Kategorie;Valuta;Saldo in CHF\n\n")
			var recs [][]string
			for _, r := range rows {
				g, l := "", ""
				if r.Amt >= 0 {
					g = amt2(r.Amt)
				} else {
					l = amt2(r.Amt)
				}
				recs = append(recs, []string{dmy(r.Z), r.Text, g, l, "", "", dmy(r.Z), ""})
			}
			b.Write(csvBytes(';', recs))
			b.WriteString("\nDisclaimer:\nDies ist kein durch PostFinance AG erstelltes Dokument.\n")
			return b.Bytes()
		}},
	{Name: "ch.supercard", Args: []string{"--account", "Liabilities:CreditCard"}, Account: "Liabilities:CreditCard", Latin1: true,
		Write: func(rows []stRow) []byte {
			recs := [][]string{{"Kontonummer", "Kartennummer", "Konto-/Karteninhaber", "Einkaufsdatum", "Buchungstext", "Branche", "Betrag", "Originalwährung", "Kurs", "Währung", "Belastung", "Gutschrift", "Buchung"}}
			for k, r := range rows {
				bel, gut := "", ""
				if r.Amt < 0 {
					bel = amt2(-r.Amt)
				} else {
					gut = amt2(r.Amt)
				}
				orig, kurs, betrag := r.Cur, " ", amt2(abs(r.Amt))
				if k%3 == 2 { // a purchase abroad: original currency differs from the billing currency
					orig, kurs, betrag = "EUR", "1.1235", amt2(abs(r.Amt)*89/100)
				}
				recs = append(recs, []string{"1425 0000 0000", "1111 2222 3333 4444", "OWNER", dmy(r.Z), r.Text, "Branche", betrag, orig, kurs, r.Cur, bel, gut, dmy(r.Z + 1)})
			}
			return latin1(append([]byte("sep=;\n"), csvBytes(';', recs)...))
		}},
	{Name: "ch.swisscard2", Args: []string{"--account", "Liabilities:CreditCard"}, Account: "Liabilities:CreditCard", Multi: true,
		Write: func(rows []stRow) []byte {
			recs := [][]string{{"Transaktionsdatum", "Beschreibung", "Händler", "Kartennummer", "Währung", "Betrag", "Fremdwährung", "Betrag in Fremdwährung", "Debit/Kredit", "Status", "Händlerkategorie", "Registrierte Kategorie"}}
			for _, r := range rows {
				dk := "Belastung"
				if r.Amt > 0 {
					dk = "Gutschrift"
				}
				recs = append(recs, []string{dmy(r.Z), r.Text, "Händler", "11", r.Cur, amt2(-r.Amt), "", "", dk, "Gebucht", "Kategorie", "REGISTERED"})
			}
			return csvBytes(',', recs)
		}},
	{Name: "ch.swisscard", Args: []string{"--account", "Liabilities:CreditCard"}, Account: "Liabilities:CreditCard",
		Write: func(rows []stRow) []byte {
			recs := [][]string{{"Transaction Date", " Posting Date", " Card Number ", "Billing Amount", " Description", " Merchant City ", " Merchant State ", " Merchant Zip ", " Reference Number ", " Debit/Credit Flag ", " SICMCC Code"}}
			for _, r := range rows {
				// the card statement shows charges as positive amounts: the effect on the liability account is the negation
				v := -r.Amt
				neg := v < 0
				if neg {
					v = -v
				}
				ip := fmt.Sprint(v / 100)
				var g []string
				for len(ip) > 3 {
					g = append([]string{ip[len(ip)-3:]}, g...)
					ip = ip[:len(ip)-3]
				}
				g = append([]string{ip}, g...)
				a := fmt.Sprintf("CHF%s.%02d", strings.Join(g, "'"), v%100)
				flag := "D"
				if neg {
					a = "-" + a
					flag = "C"
				}
				recs = append(recs, []string{dmy(r.Z), dmy(r.Z + 1), "1234", a, r.Text, "ZURICH", "CHE", "8003", "42", flag, "5411"})
			}
			return csvBytes(',', recs)
		}},
	{Name: "ch.cumulus", Args: []string{"--account", "Liabilities:Cumulus"}, Account: "Liabilities:Cumulus",
		Write: func(rows []stRow) []byte {
			// the export has sections with their own header lines: the balance carried forward and payments
			// (four columns, not booked), the purchases (five columns, optionally followed by a free-text line
			// about the foreign currency), rounding corrections (four columns, booked)
			recs := [][]string{{"Verbucht am", "Beschreibung", "Gutschrift CHF", "Belastung CHF"}, {"", "Saldovortrag letzte Rechnung", "", "1'234.56"},
				{"04.09.2020", "Ihre LSV-Zahlung - Besten Dank", "1'234.56", ""}, {"Einkaufs-Datum", "Verbucht am", "Beschreibung", "Gutschrift CHF", "Belastung CHF"}}
			var rounding [][]string
			for k, r := range rows {
				gut, bel := "", ""
				v := r.Amt
				if v < 0 {
					v = -v
				}
				a := amt2(v)
				if v >= 100000 { // thousands separator as in the real statements
					ip := fmt.Sprint(v / 100)
					a = ip[:len(ip)-3] + "'" + ip[len(ip)-3:] + fmt.Sprintf(".%02d", v%100)
				}
				if r.Amt < 0 {
					bel = a
				} else {
					gut = a
				}
				if (k+len(rows))%5 == 4 {
					rounding = append(rounding, []string{dmy(r.Z), "Rundungskorrektur", gut, bel})
					continue
				}
				recs = append(recs, []string{dmy(r.Z), dmy(r.Z + 2), r.Text, gut, bel})
				if (k+len(rows))%3 == 1 { // a line about the original currency: appended to the description
					recs = append(recs, []string{"", "", textClasses[(k*7+len(r.Text))%len(textClasses)], "", ""})
				}
			}
			if len(rounding) > 0 {
				recs = append(recs, []string{"Verbucht am", "Beschreibung", "Gutschrift CHF", "Belastung CHF"})
				recs = append(recs, rounding...)
			}
			return csvBytes(',', recs)
		}},
	{Name: "revolut", Args: []string{"--account", "Assets:Revolut"}, Account: "Assets:Revolut", Bals: true,
		Write: func(rows []stRow) []byte {
			recs := [][]string{{"Completed Date", "Reference", "Paid Out (CHF)", "Paid In (CHF)", "Exchange Out", "Exchange In", " Balance (CHF)", "Exchange Rate", "Category"}}
			for k := len(rows) - 1; k >= 0; k-- { // newest first
				r := rows[k]
				out, in := "", ""
				if r.Amt < 0 {
					out = amt2(-r.Amt)
				} else {
					in = amt2(r.Amt)
				}
				xo, xi, rate := "", "", " "
				if abs(r.Amt)%4 == 1 {
					// a card payment (or refund) in a foreign currency: the export also shows the foreign amount and the
					// rate; it is an ordinary row, not a conversion between the holder's own balances
					if r.Amt < 0 {
						xo = "GBP  " + amt2(-r.Amt*8/10)
					} else {
						xi = "GBP  " + amt2(r.Amt*8/10)
					}
					rate = "FX-rate CHF 1 = GBP 0.8000"
				}
				recs = append(recs, []string{dayToTime(r.Z).Format("2 Jan 2006"), r.Text, out, in, xo, xi, amt2(r.Bal), rate, "General"})
			}
			return csvBytes(';', recs)
		}},
	{Name: "revolut2", Args: []string{"--account", "Assets:Revolut", "--fee", "Expenses:Fees"}, Account: "Assets:Revolut", Fee: true, Multi: true, Bals: true,
		Write: func(rows []stRow) []byte {
			recs := [][]string{{"Type", "Product", "Started Date", "Completed Date", "Description", "Amount", "Fee", "Currency", "State", "Balance"}}
			for _, r := range rows {
				d := dayToTime(r.Z).Format("2006-01-02") + fmt.Sprintf(" %02d:%02d:59", (r.Z*5+abs(r.Amt))%24, abs(r.Amt)%60)
				recs = append(recs, []string{"CARD_PAYMENT", "Current", d, d, r.Text, amt2(r.Amt), amt2(r.Fee), r.Cur, "COMPLETED", amt2(r.Bal)})
			}
			return csvBytes(',', recs)
		}},
}

func abs(x int) int {
	if x < 0 {
		return -x
	}
	return x
}

var textClasses = []string{"plain text", "with \"double\" quotes", "semi;colon, and comma", "Ünïcödé Straße", "  leading blanks", "tab\there", "trailing backslash \\", "O'Brien & Sons #1 //x", "à la carte Å ø", "no\u00a0break\u00a0space", "tab\tand  double  blanks", "Caf\xe9 M\xfcller (Latin-1 bytes)", "\"SPAR\" MARKT 12"}

type impJob struct {
	im     importerSpec
	rows   []stRow
	prices []stPrice
	start  map[string]int // opening balance per commodity (booked before the statement so that carried balances hold)
	finals []stEff
	endZ   int
	args   []string
	fromZ  int
}

func observeImport(bin, root string, id int, jb impJob) map[string]any {
	im, rows := jb.im, jb.rows
	dir := filepath.Join(root, fmt.Sprintf("m%d", id))
	os.RemoveAll(dir)
	os.MkdirAll(dir, 0o755)
	defer os.RemoveAll(dir)
	var st []byte
	switch {
	case im.Prices != nil:
		st = im.Prices(jb.prices)
	case im.WriteX != nil:
		st = im.WriteX(rows, jb.finals, jb.endZ)
	default:
		st = im.Write(rows)
	}
	os.WriteFile(filepath.Join(dir, "statement.input"), st, 0o644)
	r := core.Run(core.RunOpts{Dir: dir, Timeout: 30 * time.Second}, bin, append(append(append([]string{"import", im.Name}, im.Args...), jb.args...), "statement.input")...)
	rws, bals, eprices := []any{}, []any{}, []any{}
	lastBal := map[string]map[string]any{}
	for _, x := range rows {
		extra := []any{}
		for _, e := range x.Extra {
			v := e.V * 100 // scale 10^4
			if e.F4 != 0 {
				v = e.F4 // a quantity with four decimals (fractional shares)
			}
			extra = append(extra, map[string]any{"c": e.C, "v": v})
		}
		rws = append(rws, map[string]any{"z": x.Z, "amt": x.Amt * 100, "fee": x.Fee * 100, "cur": x.Cur, "extra": extra})
		if im.Bals { // the statement carries a balance per row; the last one per (date, currency) becomes an assertion
			lastBal[fmt.Sprintf("%d/%s", x.Z, x.Cur)] = map[string]any{"z": x.Z, "cur": x.Cur, "bal": x.Bal * 100}
		}
	}
	if im.Finals { // closing balances per commodity, asserted at the end of the statement period
		for _, f := range jb.finals {
			if f.F4 != 0 {
				lastBal[fmt.Sprintf("%d/%s", jb.endZ, f.C)] = map[string]any{"z": jb.endZ, "cur": f.C, "bal": f.F4}
			}
		}
	}
	for _, p := range jb.prices { // the importer skips zero values and days before --from, and rounds to cents
		if (p.Raw+5000)/10000 != 0 && p.Z >= jb.fromZ { // a value that is zero at the cent is no price
			eprices = append(eprices, map[string]any{"z": p.Z, "p": (p.Raw + 5000) / 10000, "c": "Viac", "t": "CHF"})
		}
	}
	var keys []string
	for k := range lastBal {
		keys = append(keys, k)
	}
	sort.Strings(keys)
	for _, k := range keys {
		bals = append(bals, lastBal[k])
	}
	obs := map[string]any{"exit": r.Exit, "parses": false, "accepted": false, "fixpoint": false, "trx": []any{}, "asserts": []any{}, "prices": []any{}, "others": 0}
	cs := map[string]any{"id": id, "importer": im.Name, "rows": rws, "bals": bals, "prices": eprices, "obs": obs, "statement": string(st), "stdout": r.Stdout, "stderr": r.Stderr}
	if r.Exit != 0 {
		return cs
	}
	// (a) valid for knut's own parser
	func() {
		defer func() { recover() }()
		p := parser.New(r.Stdout, "import.knut")
		if err := p.Advance(); err != nil {
			return
		}
		f, err := p.ParseFile()
		if err != nil {
			cs["parse_error"] = err.Error()
			return
		}
		obs["parses"] = true
		trx, asserts, prices := []any{}, []any{}, []any{}
		others := 0
		for _, d := range f.Directives {
			switch t := d.Directive.(type) {
			case directives.Transaction:
				z, _ := parseYMD(t.Date.Extract())
				eff := map[string]int{}
				for _, b := range t.Bookings {
					q, err := decimal.NewFromString(b.Quantity.Extract())
					if err != nil {
						continue
					}
					v := int(q.Shift(4).IntPart()) // scale 10^4
					if !q.Shift(4).Equal(q.Shift(4).Truncate(0)) {
						v = 987654321 // more than four decimals: nothing the statements carry
					}
					if b.Debit.Extract() == im.Account {
						eff[b.Commodity.Extract()] += v
					}
					if b.Credit.Extract() == im.Account {
						eff[b.Commodity.Extract()] -= v
					}
				}
				var cs []string
				for c, v := range eff {
					if v != 0 {
						cs = append(cs, c)
					}
				}
				sort.Strings(cs)
				effs := []any{}
				for _, c := range cs {
					effs = append(effs, map[string]any{"c": c, "v": eff[c]})
				}
				trx = append(trx, map[string]any{"z": z, "effs": effs})
			case directives.Assertion:
				z, _ := parseYMD(t.Date.Extract())
				for _, b := range t.Balances {
					q, _ := decimal.NewFromString(b.Quantity.Extract())
					asserts = append(asserts, map[string]any{"z": z, "cur": b.Commodity.Extract(), "bal": int(q.Shift(4).IntPart())})
				}
			case directives.Price:
				z, _ := parseYMD(t.Date.Extract())
				q, _ := decimal.NewFromString(t.Price.Extract())
				pv := -1 // a price with more than two decimals is not what the statement carries
				if q.Shift(2).Equal(q.Shift(2).Truncate(0)) {
					pv = int(q.Shift(2).IntPart())
				}
				prices = append(prices, map[string]any{"z": z, "p": pv, "c": t.Commodity.Extract(), "t": t.Target.Extract()})
			default:
				others++
			}
		}
		obs["trx"], obs["asserts"], obs["prices"], obs["others"] = trx, asserts, prices, others
	}()
	if obs["parses"] == true {
		// (b) once the accounts are opened: accepted, and re-printed unchanged
		open := "2000-01-01 open Expenses:TBD\n2000-01-01 open Expenses:Fees\n2000-01-01 open Income:Interest\n2000-01-01 open Income:Dividends\n2000-01-01 open Expenses:Tax\n2000-01-01 open Expenses:Trading\n\n"
		if im.Account != "" {
			open = fmt.Sprintf("2000-01-01 open %s\n", im.Account) + open
		}
		// revolut2's assertions need the opening balance: book it so that the first asserted balance holds
		pre := ""
		if im.Bals || im.Finals {
			var cs []string
			for c := range jb.start {
				cs = append(cs, c)
			}
			sort.Strings(cs)
			for _, c := range cs {
				if jb.start[c] != 0 {
					pre += fmt.Sprintf("2000-01-02 \"opening\"\nExpenses:TBD %s %s %s\n\n", im.Account, amt2(jb.start[c]), c)
				}
			}
		}
		os.WriteFile(filepath.Join(dir, "j.knut"), []byte(open+pre+r.Stdout), 0o644)
		ck := core.Run(core.RunOpts{Dir: dir, Timeout: 30 * time.Second}, bin, "check", "j.knut")
		obs["accepted"] = ck.Exit == 0
		cs["check_err"] = ck.Stderr
		os.WriteFile(filepath.Join(dir, "o.knut"), []byte(r.Stdout), 0o644)
		p1 := core.Run(core.RunOpts{Dir: dir, Timeout: 30 * time.Second}, bin, "print", "j.knut")
		os.WriteFile(filepath.Join(dir, "p1.knut"), []byte(p1.Stdout), 0o644)
		p2 := core.Run(core.RunOpts{Dir: dir, Timeout: 30 * time.Second}, bin, "print", "p1.knut")
		// the importer's own output, printed again (without the opens), is itself
		po := core.Run(core.RunOpts{Dir: dir, Timeout: 30 * time.Second}, bin, "print", "o.knut")
		// re-printed unchanged: the printed journal ends with the importer's own text (the opens and the opening
		// balances booked in 2000 come first), and printing is a fixpoint
		kept := strings.HasSuffix(strings.TrimRight(p1.Stdout, "\n"), strings.TrimRight(r.Stdout, "\n"))
		obs["fixpoint"] = p1.Exit == 0 && p1.Stdout == p2.Stdout && (ck.Exit != 0 || kept) && (ck.Exit != 0 || po.Stdout == r.Stdout || po.Exit != 0)
		if ck.Exit == 0 && !kept {
			cs["reprinted"] = p1.Stdout
		}
		if po.Exit == 0 && po.Stdout != r.Stdout {
			cs["reprinted"] = po.Stdout
		}
	}
	return cs
}

func C13(c *core.Ctx) {
	c.Ev.Level = "exploration"
	c.Set("rule", "abstract statements (1-8 booking rows: dates, signs, amounts with two decimals up to 10^6, 1-3 currencies where the format allows, fees, running or closing balances where the format carries them, free text of 13 classes (one starting with a double quote) incl. double quotes, separators, Unicode, leading blanks, tabs, bytes that are not UTF-8 (a Latin-1 export); brokerage rows: transfers, interest, custody fees, dividends with and without withholding tax, purchases and sales of whole shares, currency conversions with a base-currency commission, cancelled transfers; price-only statements: 1-12 daily values with sub-cent digits, zeros and an optional --from) rendered by one format writer per importer (all 11: ch.postfinance, ch.supercard, ch.swisscard, ch.swisscard2, ch.cumulus, revolut, revolut2, ch.swissquote, us.interactivebrokers, com.wise, ch.viac); not generated: com.wise rows that pay out of a conversion (the importer emits two transactions for them by design); distinct by statement bytes; non-trivial = >= 2 rows / values")
	c.Trusted("TLC + Json module", "the eleven statement writers (the only format-specific harness code)", "knut's parser/checker/printer as readers of the importer output (cross-checked against the abstract rows)")
	c.MC("MC_Lifecycle", c.TierCfg("MC_Lifecycle"), 16, 40*time.Minute)
	bin := c.Knut("")
	root := filepath.Join(c.Work, "c13")
	os.MkdirAll(root, 0o755)
	rng := rand.New(rand.NewSource(c.Seed))
	per := c.Pick(50, 1200)
	var jobs []impJob
	all := append(append([]importerSpec{}, importers...), brokerImporters...)
	for _, im := range all {
		for k := 0; k < per; k++ {
			if im.Prices != nil { // price-only statement: a run of daily values, some zero, some with sub-cent digits
				n := 1 + rng.Intn(12)
				z := 18300 + rng.Intn(200)
				jb := impJob{im: im}
				for i := 0; i < n; i++ {
					raw := rng.Intn(9000000) * 1000
					switch rng.Intn(5) {
					case 0:
						raw = 0
					case 1:
						raw = rng.Intn(2000000000)
					case 3:
						raw = 1 + rng.Intn(9999) // below one cent
					case 2:
						raw = rng.Intn(200000)*10000 + []int{4999, 5000, 5001, 9999}[rng.Intn(4)]
					}
					jb.prices = append(jb.prices, stPrice{Z: z + i, Raw: raw})
				}
				if k%3 == 1 {
					jb.fromZ = z + rng.Intn(n+1)
					jb.args = []string{"--from", ymd(jb.fromZ)}
				}
				jobs = append(jobs, jb)
				continue
			}
			n := 1 + rng.Intn(8)
			curs := []string{"CHF"}
			if im.Multi {
				curs = []string{"CHF", "EUR", "USD"}[:1+rng.Intn(3)]
			}
			bal := map[string]int{}
			bal4 := map[string]int{} // scale 10^4 (fractional shares)
			start := map[string]int{}
			touch := func(c string) {
				if _, ok := bal[c]; !ok {
					if isCurrency(c) {
						bal[c] = 50000 + rng.Intn(100000)
					} else {
						bal[c] = 100 * rng.Intn(20)
					}
					start[c] = bal[c]
					bal4[c] = bal[c] * 100
				}
			}
			var rows []stRow
			z := 18300 + rng.Intn(200)
			for i := 0; i < n; i++ {
				z += rng.Intn(3)
				cur := curs[rng.Intn(len(curs))]
				a := rng.Intn(200000) - 150000
				if rng.Intn(6) == 0 {
					a = a * 40
				}
				if a == 0 {
					a = -1
				}
				r := stRow{Z: z, Amt: a, Cur: cur, Text: textClasses[rng.Intn(len(textClasses))]}
				if k%3 == 0 {
					r.Text = textClasses[0] // plain statements too
				}
				if im.Latin1 && (strings.Contains(r.Text, "Straße") || !utf8.ValidString(r.Text)) {
					r.Text = "Zürich Café"
				}
				if im.Fee && rng.Intn(3) == 0 {
					r.Fee = 1 + rng.Intn(300)
				}
				if im.Bals && len(im.Kinds) == 0 && rng.Intn(5) == 0 && bal[cur] != 0 && bal[cur] != r.Fee {
					r.Amt = r.Fee - bal[cur] // the account is emptied: the running balance after this row is exactly zero
				}
				if len(im.Kinds) > 0 {
					r.Kind = im.Kinds[rng.Intn(len(im.Kinds))]
					other := []string{"CHF", "EUR", "USD"}[rng.Intn(3)]
					switch r.Kind {
					case "dividend":
						r.Amt = 1 + abs(r.Amt)
					case "custody", "tax":
						r.Amt = -1 - abs(r.Amt)%20000
					case "trade": // whole shares; a purchase costs money, a sale brings money
						sh := 1 + rng.Intn(40)
						if rng.Intn(8) == 0 {
							sh = 1000 + rng.Intn(3000)
						}
						if abs(r.Amt) < sh {
							r.Amt = sh * (1 + rng.Intn(500))
						}
						if rng.Intn(2) == 0 {
							r.Amt, r.Extra = -abs(r.Amt), []stEff{{C: stockSyms[rng.Intn(len(stockSyms))], V: 100 * sh}}
						} else {
							r.Amt, r.Extra = abs(r.Amt), []stEff{{C: stockSyms[rng.Intn(len(stockSyms))], V: -100 * sh}}
						}
						if !im.Finals && rng.Intn(10) == 0 { // (Swissquote) worthless shares sold: nothing but the fee
							r.Amt, r.Extra = -(1 + rng.Intn(900)), []stEff{{C: stockSyms[rng.Intn(len(stockSyms))], V: -100 * sh}}
						}
						if im.Finals {
							r.Fee = rng.Intn(500)
							if rng.Intn(3) == 0 { // fractional shares (four decimals)
								f4 := r.Extra[0].V*100 + (1+rng.Intn(9998))*map[bool]int{true: 1, false: -1}[r.Extra[0].V > 0]
								r.Extra[0].F4 = f4
							}
						}
					case "forex": // credit in cur, debit in another currency (plus a commission in the base currency)
						for other == cur {
							other = []string{"CHF", "EUR", "USD"}[rng.Intn(3)]
						}
						r.Amt = abs(r.Amt)
						r.Extra = []stEff{{C: other, V: -(1 + rng.Intn(300000))}}
						if im.Finals {
							if rng.Intn(2) == 0 { // sold cur, bought the other
								r.Amt, r.Extra[0].V = -r.Amt, -r.Extra[0].V
							}
							if rng.Intn(3) > 0 {
								r.Extra = append(r.Extra, stEff{C: "CHF", V: -(1 + rng.Intn(400))})
							}
						}
					case "convert":
						for other == cur {
							other = []string{"CHF", "EUR", "USD"}[rng.Intn(3)]
						}
						r.Amt = -abs(r.Amt)
						r.Extra = []stEff{{C: other, V: 1 + rng.Intn(300000)}}
					}
				}
				touch(cur)
				bal[cur] += r.Amt - r.Fee
				bal4[cur] += (r.Amt - r.Fee) * 100
				for _, e := range r.Extra {
					touch(e.C)
					bal[e.C] += e.V
					if e.F4 != 0 {
						bal4[e.C] += e.F4
					} else {
						bal4[e.C] += e.V * 100
					}
				}
				r.Bal = bal[cur]
				rows = append(rows, r)
			}
			if len(rows) >= 2 && len(im.Kinds) == 0 && rng.Intn(6) == 0 {
				// two rows of one day whose free texts differ only in a character next to a double quote (the
				// order of a day's transactions depends on the descriptions)
				a := rng.Intn(len(rows) - 1)
				pair := [][2]string{{"cmp \"z", "cmp #z"}, {"cmp $", "cmp \""}, {"q\"", "q'"}, {"q' x", "q\" x"}}[rng.Intn(4)]
				if !im.Bals && !im.Finals {
					rows[a+1].Z = rows[a].Z
				}
				rows[a].Text, rows[a+1].Text = pair[0], pair[1]
			}
			jb := impJob{im: im, rows: rows, start: start, endZ: z + rng.Intn(3)}
			var cs []string
			for c := range bal {
				cs = append(cs, c)
			}
			sort.Strings(cs)
			for _, c := range cs {
				jb.finals = append(jb.finals, stEff{C: c, V: bal[c], F4: bal4[c]})
			}
			jobs = append(jobs, jb)
		}
	}
	cases := make([]map[string]any, len(jobs))
	core.Parallel(len(jobs), func(i int) { cases[i] = observeImport(bin, root, i+1, jobs[i]) })
	nt := 0
	for i := range jobs {
		if len(jobs[i].rows) >= 2 || len(jobs[i].prices) >= 2 {
			nt++
		}
	}
	c.Add("evaluations", len(cases))
	c.Add("distinct_nontrivial", nt)
	var names []string
	for _, im := range all {
		names = append(names, im.Name)
	}
	c.Set("importers_covered", names)
	c.Set("importers_uncovered", []string{})
	c.Sample(map[string]any{"importer": cases[0]["importer"], "statement": cases[0]["statement"], "output": cases[0]["stdout"]})
	seen := map[string]bool{}
	for i, cs := range cases {
		if n := fmt.Sprint(cs["importer"]); jobs[i].im.Kinds != nil && !seen[n] && len(jobs[i].rows) >= 3 {
			seen[n] = true
			c.Sample(map[string]any{"importer": n, "statement": cs["statement"], "output": cs["stdout"]})
		}
	}
	c.JudgeAndReport("Trace_Importer", "Trace_Importer.cfg", cases, 16,
		func(old map[string]any) map[string]any {
			id := old["id"].(int)
			return observeImport(bin, root, id, jobs[id-1])
		},
		func(cs map[string]any) (string, string) {
			sig := fmt.Sprintf("import:%v:%v", cs["importer"], cs["why"])
			if cs["why"] == "output-is-not-valid-knut-syntax" && strings.Contains(fmt.Sprint(cs["statement"]), "\"\"double\"\"") || cs["why"] == "output-is-not-valid-knut-syntax" && strings.Contains(fmt.Sprint(cs["stdout"]), "\"double\"") {
				sig = "D10:double-quote-in-free-text"
			}
			return sig, fmt.Sprintf("knut import %v: %v\n%v %v\n--- statement\n%v\n--- output\n%v\n--- reprinted\n%v\n%v", cs["importer"], cs["why"], cs["parse_error"], cs["check_err"], cs["statement"], cs["stdout"], cs["reprinted"], cs["stderr"])
		})
}
