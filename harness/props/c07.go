package props

import (
	"encoding/json"
	"fmt"
	"math/rand"
	"os"
	"path/filepath"
	"reflect"
	"strings"
	"time"
	"unicode"

	"kv/core"
	"kv/kj"

	"github.com/sboehler/knut/lib/syntax/directives"
	"github.com/sboehler/knut/lib/syntax/parser"
	"github.com/sboehler/knut/lib/syntax/scanner"
)

// ---------------------------------------------------------------- scanner replay (G)

var symText = map[string]string{"a": "a", "1": "1", "s": " ", "n": "\n", "U": "é", "X": "\xff", "q": "\""}

func symOfRune(r rune, clenHint int) string {
	switch {
	case r == scanner.EOF:
		return "EOF"
	case r == 0:
		return "NUL"
	case r == 'a':
		return "a"
	case r == '1':
		return "1"
	case r == ' ':
		return "s"
	case r == '\n':
		return "n"
	case r == 'é':
		return "U"
	case r == '"':
		return "q"
	case r == 0xFFFD:
		return "ERRX" // RuneError: width-0 (ERR0) or invalid byte (X); the offset tells which
	}
	return "?"
}

var scanPreds = map[string]func(rune) bool{
	"letter": unicode.IsLetter,
	"digit":  unicode.IsDigit,
	"space":  func(r rune) bool { return r == ' ' },
	"alnum":  func(r rune) bool { return unicode.IsLetter(r) || unicode.IsDigit(r) },
	"nl":     func(r rune) bool { return r == '\n' },
	"notnl":  func(r rune) bool { return r != '\n' && r != scanner.EOF },
}

type scanStep struct {
	O struct {
		Op   string     `json:"op"`
		P    string     `json:"p"`
		X    string     `json:"x"`
		Str  []string   `json:"str"`
		Alts [][]string `json:"alts"`
	} `json:"o"`
	Off int    `json:"off"`
	Cur string `json:"cur"`
	S   int    `json:"s"`
	E   int    `json:"e"`
	Err bool   `json:"err"`
}

type scanCase struct {
	Text []string   `json:"text"`
	Hist []scanStep `json:"hist"`
}

func joinSyms(ss []string) string {
	var b strings.Builder
	for _, s := range ss {
		b.WriteString(symText[s])
	}
	return b.String()
}

// replayScanner steps the real scanner through the model's operation sequence and
// compares offset, current rune, returned range and error flag after every call.
func replayScanner(sc *scanCase) (string, bool) {
	text := joinSyms(sc.Text)
	s := scanner.New(text, "mem")
	for k, st := range sc.Hist {
		var r directives.Range
		var err error
		panicked := ""
		func() {
			defer func() {
				if rec := recover(); rec != nil {
					panicked = fmt.Sprint(rec)
				}
			}()
			switch st.O.Op {
			case "Advance":
				err = s.Advance()
				r = directives.Range{Start: s.Offset(), End: s.Offset()}
			case "ReadWhile":
				r, err = s.ReadWhile(scanPreds[st.O.P])
			case "ReadWhile1":
				r, err = s.ReadWhile1(st.O.P, scanPreds[st.O.P])
			case "ReadUntil":
				r, err = s.ReadUntil(st.O.P, scanPreds[st.O.P])
			case "ReadCharacter":
				r, err = s.ReadCharacter([]rune(symText[st.O.X])[0])
			case "ReadString":
				r, err = s.ReadString(joinSyms(st.O.Str))
			case "ReadAlternative":
				var alts []string
				for _, a := range st.O.Alts {
					alts = append(alts, joinSyms(a))
				}
				r, err = s.ReadAlternative(alts)
			}
		}()
		if panicked != "" {
			return fmt.Sprintf("step %d (%s) panicked: %s", k+1, st.O.Op, panicked), false
		}
		cur := symOfRune(s.Current(), 0)
		want := st.Cur
		if want == "ERR0" || want == "X" {
			want = "ERRX"
		}
		if s.Offset() != st.Off || cur != want || (err != nil) != st.Err || r.Start != st.S || r.End != st.E {
			return fmt.Sprintf("step %d (%s): real offset=%d current=%s range=[%d,%d) err=%v; model offset=%d current=%s range=[%d,%d) err=%v",
				k+1, st.O.Op, s.Offset(), cur, r.Start, r.End, err != nil, st.Off, st.Cur, st.S, st.E, st.Err), false
		}
		if err != nil && err.Error() == "" {
			return fmt.Sprintf("step %d: error renders empty", k+1), false
		}
	}
	return "", true
}

// ---------------------------------------------------------------- parse trees (V)

var rangeType = reflect.TypeOf(directives.Range{})

type treeNode struct {
	S, E, P int
	Same    bool
}

func collectRanges(v reflect.Value, parent int, text string, out *[]treeNode) {
	switch v.Kind() {
	case reflect.Interface, reflect.Pointer:
		if !v.IsNil() {
			collectRanges(v.Elem(), parent, text, out)
		}
	case reflect.Slice:
		for i := 0; i < v.Len(); i++ {
			collectRanges(v.Index(i), parent, text, out)
		}
	case reflect.Struct:
		if v.Type() == rangeType {
			r := v.Interface().(directives.Range)
			*out = append(*out, treeNode{r.Start, r.End, parent, r.Text == text || (r.Start == 0 && r.End == 0 && r.Text == "")})
			return
		}
		me := parent
		if f := v.FieldByName("Range"); f.IsValid() && f.Type() == rangeType {
			r := f.Interface().(directives.Range)
			*out = append(*out, treeNode{r.Start, r.End, parent, r.Text == text || (r.Start == 0 && r.End == 0 && r.Text == "")})
			me = len(*out)
		}
		for i := 0; i < v.NumField(); i++ {
			if v.Type().Field(i).Name == "Range" && v.Type().Field(i).Type == rangeType {
				continue
			}
			collectRanges(v.Field(i), me, text, out)
		}
	}
}

func lineClasses(gap string, startsAtLineStart bool) []any {
	out := []any{}
	lines := strings.Split(gap, "\n")
	for k, ln := range lines {
		t := strings.TrimRight(ln, "\r")
		switch {
		case strings.TrimLeft(t, " \t\r") == "":
			out = append(out, "blank")
		case (k > 0 || startsAtLineStart) && (strings.HasPrefix(t, "*") || strings.HasPrefix(t, "#") || strings.HasPrefix(t, "//")):
			out = append(out, "comment")
		default:
			out = append(out, "other")
		}
	}
	return out
}

func parseCase(id int, text string) map[string]any {
	cs := map[string]any{"id": id, "len": len(text), "ok": false, "panicked": false, "timedOut": false,
		"nodes": []any{}, "dirs": []any{}, "gaps": []any{}, "file": map[string]any{"s": 0, "e": len(text)}, "err": map[string]any{"s": 0, "e": 0, "rendered": true, "foreign": false}}
	type result struct {
		f   directives.File
		err error
		pan string
	}
	ch := make(chan result, 1)
	go func() {
		var res result
		defer func() {
			if rec := recover(); rec != nil {
				res.pan = fmt.Sprint(rec)
			}
			ch <- res
		}()
		p := parser.New(text, "mem.knut")
		if err := p.Advance(); err != nil {
			res.err = err
			return
		}
		res.f, res.err = p.ParseFile()
	}()
	var res result
	select {
	case res = <-ch:
	case <-time.After(20 * time.Second):
		cs["timedOut"] = true
		return cs
	}
	if res.pan != "" {
		cs["panicked"], cs["panic"] = true, res.pan
		return cs
	}
	if res.err != nil {
		e := map[string]any{"s": 0, "e": 0, "rendered": true, "foreign": false}
		func() {
			defer func() {
				if rec := recover(); rec != nil {
					e["rendered"] = false
				}
			}()
			if res.err.Error() == "" {
				e["rendered"] = false
			}
			var de directives.Error
			cur := res.err
			for depth := 0; depth < 50; depth++ {
				d, ok := cur.(directives.Error)
				if !ok {
					break
				}
				de = d
				if d.Start < 0 || d.End > len(text) || d.Start > d.End {
					break
				}
				if d.Text != text {
					// a link whose range belongs to another text (e.g. a zero Error): its position says nothing about the input
					e["foreign"] = true
				}
				if d.Wrapped == nil {
					break
				}
				cur = d.Wrapped
			}
			e["s"], e["e"] = de.Start, de.End
		}()
		cs["err"] = e
		cs["errtext"] = func() (t string) {
			defer func() {
				if rec := recover(); rec != nil {
					e["rendered"] = false
					t = fmt.Sprintf("<rendering the error panicked: %v>", rec)
				}
			}()
			return res.err.Error()
		}()
		return cs
	}
	cs["ok"] = true
	f := res.f
	cs["file"] = map[string]any{"s": f.Start, "e": f.End}
	var nodes []treeNode
	for _, d := range f.Directives {
		collectRanges(reflect.ValueOf(d), 0, text, &nodes)
	}
	ns := []any{}
	for _, n := range nodes {
		ns = append(ns, map[string]any{"s": n.S, "e": n.E, "p": n.P, "same": n.Same})
	}
	cs["nodes"] = ns
	ds := []any{}
	gaps := []any{}
	pos := 0
	for _, d := range f.Directives {
		ds = append(ds, map[string]any{"s": d.Start, "e": d.End})
		if d.Start >= pos && d.Start <= len(text) && d.End <= len(text) && d.Start <= d.End {
			gaps = append(gaps, lineClasses(text[pos:d.Start], pos == 0 || text[pos-1] == '\n'))
			pos = d.End
		}
	}
	if pos <= len(text) {
		gaps = append(gaps, lineClasses(text[pos:], pos == 0 || text[pos-1] == '\n'))
	}
	cs["dirs"], cs["gaps"] = ds, gaps
	return cs
}

// ---------------------------------------------------------------- inputs

func noisyJournal(rng *rand.Rand) string {
	j := kj.Random(rng, kj.GenOpts{Valued: rng.Intn(2) == 0, Accruals: true, MaxDirs: 8, Accounts: append([]string{"Assets:Überweisung", "Expenses:Café:Crème"}, kj.DefaultAccounts...)}, 18262)
	var b strings.Builder
	comments := []string{"# plain", "#über alles", "// slash", "//€ x", "* org heading", "*😀", "#", "// trailing  \t", "#é"}
	for _, d := range j.Dirs {
		if d.K == "trx" && rng.Intn(4) == 0 {
			d.Perf = [][]string{{}, {"CHF"}, {"USD", "CHF"}}[rng.Intn(3)]
		}
		t := j.RenderDir(d)
		if d.K == "assert" && rng.Intn(3) == 0 {
			// the multi-line form with a single balance line
			if i := strings.Index(t, " balance "); i > 0 && !strings.Contains(t[i+9:], "\n") {
				t = t[:i] + " balance\n" + t[i+9:]
			}
		}
		if rng.Intn(5) == 0 {
			t = strings.ReplaceAll(t, " ", "\t")
		}
		if rng.Intn(6) == 0 {
			t = strings.ReplaceAll(t, " ", "   ")
		}
		if rng.Intn(8) == 0 {
			t = strings.ReplaceAll(t, "\n", "\r\n")
		}
		if rng.Intn(6) == 0 {
			t = strings.ReplaceAll(t, "\n", "  \n")
		}
		b.WriteString(t)
		switch rng.Intn(5) {
		case 0:
			b.WriteString("\n")
		case 1:
			b.WriteString("\n" + comments[rng.Intn(len(comments))] + "\n\n")
		case 2:
			b.WriteString("\n\n\n")
		case 3:
			b.WriteString("\n" + comments[rng.Intn(len(comments))] + "\n" + comments[rng.Intn(len(comments))] + "\n")
		default:
			b.WriteString("\n")
		}
	}
	s := b.String()
	if rng.Intn(4) == 0 {
		s = strings.TrimRight(s, "\n")
	}
	if rng.Intn(6) == 0 {
		s = "include \"other/file.knut\"\n\n" + s
	}
	return s
}

func mutate(rng *rand.Rand, s string) string {
	b := []byte(s)
	if len(b) == 0 {
		return s
	}
	for k := 1 + rng.Intn(3); k > 0; k-- {
		i := rng.Intn(len(b))
		switch rng.Intn(6) {
		case 0:
			b = append(b[:i:i], b[i+1:]...)
		case 1:
			b = append(b[:i:i], append([]byte{byte(rng.Intn(256))}, b[i:]...)...)
		case 2:
			b[i] = byte(rng.Intn(256))
		case 3:
			b = b[:i]
		case 4:
			frag := []string{"\"", "@", "\n\n", "@accrue ", "balance\n", "0.", "-", "é", "\xf0\x9f", "\t", "\r", "//", "*"}[rng.Intn(13)]
			b = append(b[:i:i], append([]byte(frag), b[i:]...)...)
		case 5:
			j := rng.Intn(len(b))
			if i > j {
				i, j = j, i
			}
			b = append(b[:i:i], b[j:]...)
		}
		if len(b) == 0 {
			break
		}
	}
	return string(b)
}

func C07(c *core.Ctx) {
	c.Set("rule", "(G) every (text of <= 3-4 character classes, sequence of 2-3 scanner operations) of the Scanner.tla scope; (V) byte strings: rendered journals with layout noise (tabs, CRLF, trailing blanks, Unicode names and comments whose first character is multi-byte, annotations in either order, missing final newline), 1-3 random byte-level mutations of those (invalid UTF-8, truncation, deleted spans), every prefix of doc/example.knut, random token soup, very long tokens; distinct by text; non-trivial = at least one directive parsed or an error beyond the first token")
	c.Trusted("TLC + Json module", "reflection walk collecting every Range of the returned tree", "gap line classifier (blank / comment / other)")
	c.MC("Scanner", c.TierCfg("MC_Scanner"), 16, 40*time.Minute)
	// (G) replay TLC-generated scanner behaviours
	gen := "MC_Scanner_gen.cfg"
	if core.Thorough(c) {
		gen = "MC_Scanner_gen_thorough.cfg"
	}
	r := c.TLC(core.TLCOpts{Spec: "Scanner", Cfg: gen, Workers: 8, Timeout: 30 * time.Minute, Heap: "10g"})
	if !r.OK {
		c.Infra("scanner generation failed: %s", r.ErrorText)
		return
	}
	var scs []scanCase
	for _, ln := range r.Printed {
		u := core.Unquote(ln)
		if !strings.HasPrefix(u, "CASE ") {
			continue
		}
		var sc scanCase
		if err := json.Unmarshal([]byte(u[5:]), &sc); err != nil {
			c.Infra("bad scanner CASE: %v", err)
			return
		}
		scs = append(scs, sc)
	}
	if len(scs) == 0 {
		c.Infra("no scanner cases generated")
		return
	}
	c.Set("generated_behaviours_replayed", len(scs))
	msgs := make([]string, len(scs))
	core.Parallel(len(scs), func(i int) { msgs[i], _ = replayScanner(&scs[i]) })
	reported := 0
	for i, m := range msgs {
		if m == "" {
			continue
		}
		// reproduce
		if m2, ok := replayScanner(&scs[i]); ok || m2 == "" {
			c.Infra("scanner disagreement not reproduced: %s", m)
			continue
		}
		reported++
		if reported <= 3 {
			c.Violate("scanner:differs-from-model", fmt.Sprintf("text classes %v (%q): %s", scs[i].Text, joinSyms(scs[i].Text), m), map[string]string{"case.json": core.JSON(scs[i])})
		}
	}
	c.Sample(map[string]any{"scanner_behaviour": scs[len(scs)/2]})
	c07grammar(c)
	// (V) parse trees
	rng := rand.New(rand.NewSource(c.Seed))
	var texts []string
	n := c.Pick(6000, 150000)
	for k := 0; k < n; k++ {
		base := noisyJournal(rng)
		switch k % 4 {
		case 0:
			texts = append(texts, base)
		case 1, 2:
			texts = append(texts, mutate(rng, base))
		default:
			toks := []string{"2020-01-01", "open", "close", "balance", "price", "Assets:A", "Expenses:B", "1.5", "-3", "CHF", "\"x\"", "\n", "\n\n", " ", "@accrue", "@performance", "(", ")", ",", "monthly", "include", "é", "#", "//", "*", "\t", "\r\n", "\xff"}
			var b strings.Builder
			for t := rng.Intn(25); t >= 0; t-- {
				b.WriteString(toks[rng.Intn(len(toks))])
				if rng.Intn(3) > 0 {
					b.WriteString(" ")
				}
			}
			texts = append(texts, b.String())
		}
	}
	ex, _ := os.ReadFile(filepath.Join(core.RepoRoot, "doc/example.knut"))
	step := c.Pick(7, 1)
	for k := 0; k <= len(ex); k += step {
		texts = append(texts, string(ex[:k]))
	}
	for k := 0; k < 40; k++ { // a byte order mark in front (of a journal, of garbage, of nothing)
		texts = append(texts, "\ufeff"+texts[rng.Intn(len(texts))])
	}
	// special bytes in the first position(s) and at the very end: NUL and other control characters, a lone
	// continuation byte, a truncated multi-byte lead, vertical tab / form feed, the replacement character
	for _, pre := range []string{"\x00", "\x00\n", "\x01", "\x7f", "\x80", "\xc3", "\xe2\x82", "\x0b", "\x0c", "\ufffd", "\x00\x00", "\u2028", "\u00a0"} {
		for k := 0; k < 3; k++ {
			base := texts[rng.Intn(len(texts))]
			texts = append(texts, pre+base, base+pre, pre)
		}
	}
	// quoted strings with unusual contents: empty, blank-only, padded, a lone quote character inside
	texts = append(texts, quotedStringTexts()...)
	texts = append(texts, oddJournals()...)
	texts = append(texts, "\ufeff", "\ufeff\n", "a\ufeffb", "", "\n", "\xff", "#é", "#é\n", "//€ x\n2020-01-01 open Assets:A\n", "#é\nx\n2023-01-01 open Assets:A\n",
		"2020-01-01 open Assets:"+strings.Repeat("Ab", 60000)+"\n", strings.Repeat("# c\n", 20000), "2020-01-01 \""+strings.Repeat("é", 100000)+"\"\nAssets:A Assets:B 1 CHF\n")
	seen := map[string]bool{}
	var cases []map[string]any
	for _, t := range texts {
		if seen[t] {
			continue
		}
		seen[t] = true
		cases = append(cases, nil)
	}
	uniq := make([]string, 0, len(cases))
	seen = map[string]bool{}
	for _, t := range texts {
		if !seen[t] {
			seen[t] = true
			uniq = append(uniq, t)
		}
	}
	core.Parallel(len(uniq), func(i int) { cases[i] = parseCase(i+1, uniq[i]) })
	nt, okc := 0, 0
	for _, cs := range cases {
		if cs["ok"].(bool) {
			okc++
			if len(cs["dirs"].([]any)) > 0 {
				nt++
			}
		} else if e, _ := cs["err"].(map[string]any); e != nil && e["s"].(int) > 12 {
			nt++
		}
	}
	c.Add("evaluations", len(cases)+len(scs))
	c.Add("distinct_nontrivial", nt)
	c.Set("texts_parsed_ok", okc)
	c.Set("texts", len(cases))
	tr, _ := cases[0]["nodes"].([]any)
	if len(tr) > 12 {
		tr = tr[:12]
	}
	c.Sample(map[string]any{"text": tailStr(uniq[0], 400), "tree_first_nodes": tr, "directives": cases[0]["dirs"]})
	c.JudgeAndReport("Trace_Syntax", "Trace_Syntax.cfg", cases, 16,
		func(old map[string]any) map[string]any { return parseCase(old["id"].(int), uniq[old["id"].(int)-1]) },
		func(cs map[string]any) (string, string) {
			t := uniq[cs["id"].(int)-1]
			if len(t) > 3000 {
				t = t[:3000] + "...(truncated)"
			}
			return "parser:" + fmt.Sprint(cs["why"]), fmt.Sprintf("parser: %v %v %v\ninput (%d bytes): %q", cs["why"], cs["panic"], cs["errtext"], cs["len"], t)
		})
}

// quotedStringTexts: journals whose quoted strings (descriptions, include paths) are empty, blank-only, padded
// or contain line breaks.
func quotedStringTexts() []string {
	var texts []string
	// annotations in front of every kind of directive (they belong to transactions)
	for _, ann := range []string{"@performance(CHF)\n", "@performance()\n", "@accrue monthly 2020-01-01 2020-03-31 Assets:A\n", "@accrue daily 2020-01-01 2020-01-03 Assets:A\n@performance(USD,CHF)\n"} {
		for _, d := range []string{"2020-01-01 open Assets:A\n", "2020-01-02 price USD 0.9 CHF\n", "2020-01-03 balance Assets:A 0 CHF\n", "2020-01-03 balance\nAssets:A 0 CHF\nAssets:A 0 USD\n\n", "2020-01-04 close Assets:A\n", "include \"x.knut\"\n", "2020-01-02 \"t\"\nAssets:A Assets:B 1 CHF\n"} {
			texts = append(texts, ann+d, "# c\n\n"+ann+d+"\n2020-02-01 open Assets:B\n")
		}
	}
	for _, q := range []string{"", " ", "  ", "\t", " \t ", " x", "x ", " x ", "\n", " \n ", "é", " é "} {
		texts = append(texts,
			"2023-04-03 \""+q+"\"\nAssets:A Assets:B 1 CHF\n",
			"2020-01-01 open Assets:A\n\n2023-04-03 \""+q+"\"\nAssets:A Assets:B 1 CHF\n\n2023-04-04 \"y\"\nAssets:A Assets:B 2 CHF\n",
			"include \""+q+"\"\n", "# c\ninclude \""+q+"\"\n2020-01-01 open Assets:A\n")
	}
	return texts
}
