package props

import (
	"bytes"
	"fmt"
	"math/rand"
	"os"
	"path/filepath"
	"reflect"
	"sort"
	"strings"
	"time"

	"kv/core"

	"github.com/sboehler/knut/lib/syntax"
	"github.com/sboehler/knut/lib/syntax/directives"
	"github.com/sboehler/knut/lib/syntax/parser"
	"github.com/shopspring/decimal"
)

// fieldsOf lists the leaves of a directive as "Type=value" strings.
func fieldsOf(v reflect.Value, out *[]any) {
	switch v.Kind() {
	case reflect.Interface, reflect.Pointer:
		if !v.IsNil() {
			fieldsOf(v.Elem(), out)
		}
	case reflect.Slice:
		*out = append(*out, fmt.Sprintf("len=%d", v.Len()))
		for i := 0; i < v.Len(); i++ {
			fieldsOf(v.Index(i), out)
		}
	case reflect.Bool:
		*out = append(*out, fmt.Sprintf("bool=%v", v.Bool()))
	case reflect.Struct:
		t := v.Type()
		switch t.Name() {
		case "Range":
			return
		case "Date", "Commodity", "Interval":
			r := v.FieldByName("Range").Interface().(directives.Range)
			*out = append(*out, t.Name()+"="+safeExtract(r))
			return
		case "Decimal":
			r := v.FieldByName("Range").Interface().(directives.Range)
			s := safeExtract(r)
			if d, err := decimal.NewFromString(s); err == nil {
				s = d.String()
			}
			*out = append(*out, "Decimal="+s)
			return
		case "Account":
			r := v.FieldByName("Range").Interface().(directives.Range)
			*out = append(*out, fmt.Sprintf("Account=%s macro=%v", safeExtract(r), v.FieldByName("Macro").Bool()))
			return
		case "QuotedString":
			r := v.FieldByName("Content").Interface().(directives.Range)
			*out = append(*out, "String="+safeExtract(r))
			return
		case "Performance", "Accrual":
			r := v.FieldByName("Range").Interface().(directives.Range)
			*out = append(*out, fmt.Sprintf("%s present=%v", t.Name(), r.Start != r.End))
		default:
			*out = append(*out, "kind="+t.Name())
		}
		for i := 0; i < v.NumField(); i++ {
			if t.Field(i).Name == "Range" {
				continue
			}
			fieldsOf(v.Field(i), out)
		}
	}
}

func safeExtract(r directives.Range) (s string) {
	defer func() {
		if recover() != nil {
			s = "<bad range>"
		}
	}()
	return r.Extract()
}

type parsed struct {
	ok    bool
	dirs  []any
	gaps  []any
	lines []any
	file  directives.File
}

func parseForFormat(text string) (p parsed) {
	defer func() {
		if recover() != nil {
			p.ok = false
		}
	}()
	ps := parser.New(text, "mem.knut")
	if err := ps.Advance(); err != nil {
		return
	}
	f, err := ps.ParseFile()
	if err != nil {
		return
	}
	p.ok, p.file = true, f
	// a gap starts after the line break that ends the directive's last line: the ranges of the multi-line forms
	// (transactions, balance blocks) include that line break, the ranges of the one-line forms do not
	pos, own := 0, true
	gap := func(to int) string {
		g := text[pos:to]
		if !own && strings.HasPrefix(g, "\n") {
			g = g[1:]
		}
		return g
	}
	for _, d := range f.Directives {
		var fs []any
		fieldsOf(reflect.ValueOf(d.Directive), &fs)
		p.dirs = append(p.dirs, fs)
		p.gaps = append(p.gaps, gap(d.Start))
		pos, own = d.End, d.End > d.Start && text[d.End-1] == '\n'
	}
	p.gaps = append(p.gaps, gap(len(text)))
	if p.dirs == nil {
		p.dirs = []any{}
	}
	p.lines = linesAround(text, f.Directives)
	return
}

// linesAround is the reader's view of a file: its directives ("D") interleaved with the complete lines that lie
// outside every directive ("L" + the line). A directive's range may or may not include its last line break (the
// multi-line forms do), so a line break that moves between a directive and the following gap leaves the gap
// texts equal although a blank line has disappeared; the line view sees it.
func linesAround(text string, ds []directives.Directive) []any {
	out := []any{}
	k := 0 // the next directive that has not started yet
	for ls := 0; ls < len(text); {
		le := ls
		for le < len(text) && text[le] != '\n' {
			le++
		}
		content := text[ls:le]
		if le < len(text) {
			le++
		}
		inside := k > 0 && ds[k-1].End > ls
		for k < len(ds) && ds[k].Start < le {
			out = append(out, "D")
			k++
			inside = true
		}
		if !inside {
			out = append(out, "L"+content)
		}
		ls = le
	}
	return out
}

func formatLib(f directives.File) (out string, panicked bool) {
	defer func() {
		if recover() != nil {
			panicked = true
		}
	}()
	var b bytes.Buffer
	if err := syntax.FormatFile(&b, f); err != nil {
		return "", true
	}
	return b.String(), false
}

func formatCase(bin, dir string, id int, text string) map[string]any {
	cs := map[string]any{"id": id, "text": text, "panicked": false, "afterParses": false, "idempotent": false, "cliEqualsLib": false, "cliExit": 0, "cliUnchanged": false, "inkBefore": "", "inkAfter": "",
		"before": map[string]any{"dirs": []any{}, "gaps": []any{}, "lines": []any{}}, "after": map[string]any{"dirs": []any{}, "gaps": []any{}, "lines": []any{}}}
	before := parseForFormat(text)
	cs["parseable"] = before.ok
	file := filepath.Join(dir, fmt.Sprintf("f%d.knut", id))
	os.WriteFile(file, []byte(text), 0o644)
	defer os.Remove(file)
	r := core.Run(core.RunOpts{Timeout: 30 * time.Second}, bin, "format", file)
	now, _ := os.ReadFile(file)
	cs["cliExit"] = r.Exit
	if r.TimedOut || strings.Contains(r.Stderr, "panic:") {
		cs["cliExit"] = -9
		cs["panicked"] = true
	}
	cs["cliUnchanged"] = string(now) == text
	cs["stderr"] = r.Stderr
	if !before.ok {
		return cs
	}
	after, pan := formatLib(before.file)
	if pan {
		cs["panicked"] = true
		return cs
	}
	cs["formatted"] = after
	cs["inkBefore"], cs["inkAfter"] = inkOf(text), inkOf(after)
	cs["cliEqualsLib"] = string(now) == after
	ap := parseForFormat(after)
	cs["afterParses"] = ap.ok
	if !ap.ok {
		return cs
	}
	cs["before"] = map[string]any{"dirs": before.dirs, "gaps": before.gaps, "lines": before.lines}
	cs["after"] = map[string]any{"dirs": ap.dirs, "gaps": ap.gaps, "lines": ap.lines}
	again, pan2 := formatLib(ap.file)
	cs["idempotent"] = !pan2 && again == after
	return cs
}

func C08(c *core.Ctx) {
	c.Ev.Level = "exploration"
	c.Set("rule", "parseable journals in many layouts (tabs, CRLF, trailing blanks, multi-line descriptions, Unicode names, annotations in either order incl. empty @performance(), multi-line assertions, comments and headings between directives, missing final newline) and unparseable mutations of them; each formatted by the real library (syntax.FormatFile) and by the real `knut format` on a file; distinct by text; non-trivial = parseable with >= 1 directive whose rendering differs from its source or >= 1 non-empty gap")
	c.Trusted("TLC + Json module", "reflection walk listing the leaf fields of each directive (amounts compared as canonical decimals)", "knut's parser as reader of the formatted text (the intended fields are those of the original parse)")
	c.MC("Scanner", c.TierCfg("MC_Scanner"), 16, 40*time.Minute)
	bin := c.Knut("")
	dir := filepath.Join(c.Work, "c08")
	os.MkdirAll(dir, 0o755)
	rng := rand.New(rand.NewSource(c.Seed))
	n := c.Pick(2500, 60000)
	var texts []string
	seen := map[string]bool{}
	for k := 0; k < n; k++ {
		t := noisyJournal(rng)
		switch k % 5 {
		case 3:
			t = mutate(rng, t)
		case 4:
			// annotation variety: empty target list, both annotations in either order, multi-line description
			t += "\n@performance()\n2020-05-01 \"empty targets\"\nAssets:A Assets:B 1.50 CHF\n\n@accrue monthly 2020-01-01 2020-03-31 Assets:Accrual\n@performance( USD ,CHF )\n2020-05-02 \"two\nlines\"\nAssets:A  Expenses:B   2.000 CHF\n"
		}
		if k%50 == 7 {
			t = "\ufeff" + t
		}
		if !seen[t] {
			seen[t] = true
			texts = append(texts, t)
		}
	}
	// journals without any directive (notes, commented-out entries, blank or whitespace-only files), one
	// directive only, one include only, with and without a final newline
	for _, t := range append([]string{"", "\n", "\n\n\n", "   \n\t\n", "# notes only\n", "// nothing here", "* heading\n\n# c1\n// c2\n\n", "# é\n#\n#x",
		"# commented out:\n# 2020-01-01 open Assets:A\n\n\n// 2020-01-02 \"t\"\n// Assets:A Assets:B 1 CHF\n",
		"2020-01-01   open   Assets:A", "2020-01-01 open Assets:A\n", "\n\n2020-01-01   price  USD   0.90  CHF\n\n\n", "include \"x.knut\"", "\n# top\ninclude   \"sub/y.knut\"\n# bottom\n",
		"\ufeff# bom and notes\n", "\r\n# crlf notes\r\n\r\n",
		// an account name of more than a million letters (fmt refuses widths above 10^6)
		"2020-01-01 open Assets:" + strings.Repeat("a", 1000001) + "\n\n2020-01-02 \"x\"\nAssets:" + strings.Repeat("a", 1000001) + " Expenses:B 1 CHF\nExpenses:B Assets:C 2 CHF\n"},
		append(quotedStringTexts(), oddJournals()...)...) {
		if !seen[t] {
			seen[t] = true
			texts = append(texts, t)
		}
	}
	cases := make([]map[string]any, len(texts))
	core.Parallel(len(texts), func(i int) { cases[i] = formatCase(bin, dir, i+1, texts[i]) })
	nt, okc := 0, 0
	for _, cs := range cases {
		if cs["parseable"].(bool) {
			okc++
			if f, _ := cs["formatted"].(string); f != cs["text"].(string) {
				nt++
			}
		}
	}
	c.Add("evaluations", len(cases))
	c.Add("distinct_nontrivial", nt)
	c.Set("parseable", okc)
	c.Sample(map[string]any{"text": cases[0]["text"], "formatted": cases[0]["formatted"]})
	c.JudgeAndReport("Trace_Format", "Trace_Format.cfg", cases, 16,
		func(old map[string]any) map[string]any {
			return formatCase(bin, dir, old["id"].(int), texts[old["id"].(int)-1])
		},
		func(cs map[string]any) (string, string) {
			return "format:" + fmt.Sprint(cs["why"]), fmt.Sprintf("format: %v (cli exit %v) %v\n--- input\n%v\n--- formatted\n%v", cs["why"], cs["cliExit"], cs["stderr"], cs["text"], cs["formatted"])
		})
}

// inkOf is the census of the non-blank characters of a text ("rune:count" pairs in code-point order): formatting
// may move blanks around and reorder annotations, it must not add or drop anything that is printed with ink.
func inkOf(text string) string {
	n := map[rune]int{}
	for _, r := range text {
		if r != ' ' && r != '\t' && r != '\n' && r != '\r' {
			n[r]++
		}
	}
	var rs []int
	for r := range n {
		rs = append(rs, int(r))
	}
	sort.Ints(rs)
	var b strings.Builder
	for _, r := range rs {
		fmt.Fprintf(&b, "%x:%d,", r, n[rune(r)])
	}
	return b.String()
}
