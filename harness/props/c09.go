package props

import (
	"fmt"
	"math/rand"
	"os"
	"path/filepath"
	"regexp"
	"strings"
	"time"

	"kv/core"
	"kv/kj"
)

var c09Bal = [][]string{
	{"balance", "--color=false", "-a", "--digits", "8"},
	{"balance", "--color=false", "-a", "--months", "--diff", "--digits", "4"},
	{"balance", "--color=false", "-a", "--weeks", "--last", "4", "--close=false"},
}

var rePriceLine = regexp.MustCompile(`(?m)^\S+[ \t]+price[ \t]+(\S+)[ \t]+\S+[ \t]+(\S+)`)

func observePrint(bin, dir string, id int, j *kj.Journal, valued bool, cs map[string]any) {
	observePrintText(bin, dir, id, j.Render(), valued, cs)
}

func observePrintText(bin, dir string, id int, text string, valued bool, cs map[string]any) {
	d := filepath.Join(dir, fmt.Sprintf("r%d", id))
	os.RemoveAll(d)
	os.MkdirAll(d, 0o755)
	defer os.RemoveAll(d)
	orig := filepath.Join(d, "orig.knut")
	os.WriteFile(orig, []byte(text), 0o644)
	run := func(args ...string) core.RunResult {
		return core.Run(core.RunOpts{Dir: d, Timeout: 60 * time.Second}, bin, args...)
	}
	chk := run("check", orig)
	p1 := run("print", orig)
	printed := filepath.Join(d, "printed.knut")
	os.WriteFile(printed, []byte(p1.Stdout), 0o644)
	chk2 := run("check", printed)
	p2 := run("print", printed)
	ids := map[string]int{}
	idOfS := func(s string) int {
		if _, ok := ids[s]; !ok {
			ids[s] = len(ids) + 1
		}
		return ids[s]
	}
	bals := c09Bal
	if valued {
		bals = append(append([][]string{}, c09Bal...), []string{"balance", "--color=false", "-a", "-v", "CHF", "--months", "--digits", "8"})
		// valued in every commodity that occurs in a price directive (inverse and chained prices, many decimals)
		seenV := map[string]bool{"CHF": true}
		for _, m := range rePriceLine.FindAllStringSubmatch(text, -1) {
			for _, v := range []string{m[1], m[2]} {
				if !seenV[v] && len(seenV) < 5 {
					seenV[v] = true
					bals = append(bals, []string{"balance", "--color=false", "-a", "-v", v, "--digits", "8"})
				}
			}
		}
	}
	var b1, b2 []any
	var diff string
	for _, cmd := range bals {
		r1 := run(append(append([]string{}, cmd...), orig)...)
		r2 := run(append(append([]string{}, cmd...), printed)...)
		b1 = append(b1, idOfS(fmt.Sprint(r1.Exit)+r1.Stdout))
		b2 = append(b2, idOfS(fmt.Sprint(r2.Exit)+r2.Stdout))
		if r1.Stdout != r2.Stdout && diff == "" {
			diff = fmt.Sprintf("%v\n--- original\n%s\n--- printed\n%s\n%s", cmd, r1.Stdout, r2.Stdout, r2.Stderr)
		}
	}
	blocks := printedBlocks(p1.Stdout, map[string]int{})
	pr := []any{}
	for _, b := range blocks {
		m := b.(map[string]any)
		k := m["kind"].(string)
		if k == "balance" {
			k = "assert"
		}
		pr = append(pr, map[string]any{"z": m["z"], "kind": k})
	}
	cs["obs"] = map[string]any{"accepted": chk.Exit == 0, "exit1": p1.Exit, "check2": chk2.Exit == 0, "p1": idOfS(p1.Stdout), "p2": idOfS(p2.Stdout),
		"bal1": b1, "bal2": b2, "printed": pr}
	cs["text"], cs["printedText"], cs["check2err"], cs["diff"] = text, p1.Stdout, chk2.Stderr, diff
	if p1.Stdout != p2.Stdout {
		cs["printedTwice"] = p2.Stdout
	}
}

func C09(c *core.Ctx) {
	c.Set("rule", "random journals (negative/zero amounts, amounts with trailing zeros, accruals, @performance with 0-2 targets, several assertions per day incl. multi-line ones, Unicode account names, some rejected by check); print -> check -> print -> 3-4 balance flag sets on original and printed; distinct by journal text; non-trivial = accepted journal with >= 1 transaction and >= 1 of {accrual, assertion, annotation, Unicode}")
	c.Trusted("TLC + Json module", "kj renderer", "splitter of `knut print` output into directive blocks", "knut's own parser/checker as reader of knut's output (cross-checked against the model's expanded journal per day and kind)")
	c.MC("MC_Lifecycle", c.TierCfg("MC_Lifecycle"), 16, 40*time.Minute)
	bin := c.Knut("")
	root := filepath.Join(c.Work, "c09")
	os.MkdirAll(root, 0o755)
	rng := rand.New(rand.NewSource(c.Seed))
	n := c.Pick(160, 2500)
	js := make([]*kj.Journal, n)
	valued := make([]bool, n)
	cases := make([]map[string]any, n)
	for i := range js {
		valued[i] = i%3 == 1
		var j *kj.Journal
		if i%5 == 4 {
			j = kj.Lifecycle(rng, 18290, 3+rng.Intn(3), rng.Intn(2), true)
			valued[i] = false
			if i%10 == 9 {
				j.QS = 100 // the same journal in cents: amounts and asserted balances below one unit (0.30, -0.07)
			}
		} else {
			accts := append([]string{"Assets:Überweisung:Konto", "Expenses:Café"}, kj.DefaultAccounts...)
			j = kj.Random(rng, kj.GenOpts{Valued: valued[i], Accruals: !valued[i], MaxDirs: 10, Accounts: accts}, 18262+rng.Intn(60))
			_, hi := journalSpan(j)
			// several assertions on one day, multi-line ones first (zero on never-booked commodities)
			open := map[string]bool{}
			for _, d := range j.Dirs {
				if d.K == "open" {
					open[d.A] = true
				}
			}
			for a := range open {
				if strings.HasPrefix(a, "Assets") && rng.Intn(2) == 0 {
					j.Dirs = append(j.Dirs, kj.Dir{K: "assert", Z: hi + 1, Multi: rng.Intn(2) == 0, Bal: []kj.Bal{{A: a, C: "XYZ", Q: 0}, {A: a, C: "XAU", Q: 0}}[:1+rng.Intn(2)]})
				}
			}
			// a corrected quote: two prices for one pair on one day, the later (lower or higher) one counts
			if valued[i] && rng.Intn(2) == 0 {
				for k := range j.Dirs {
					if j.Dirs[k].K == "price" && j.Dirs[k].Z > 18262 {
						dup := j.Dirs[k]
						dup.P = []int{5000, 20000, 40000, 12500, 8000}[rng.Intn(5)]
						j.Dirs = append(j.Dirs, dup)
						break
					}
				}
			}
			for k := range j.Dirs {
				if j.Dirs[k].K == "trx" && rng.Intn(4) == 0 {
					j.Dirs[k].Perf = [][]string{{}, {"CHF"}, {"USD", "CHF"}}[rng.Intn(3)]
				}
			}
			// descriptions: multi-line ones, and same-day transactions whose descriptions share a prefix and
			// differ in a line break / blank / punctuation (the order of a day's transactions depends on them)
			if i%2 == 0 {
				descs := []string{"Rent\nJanuary, paid late", "Rent 2020 deposit top-up", "Rent", "Rent\n\nnotes", "Rent!", "Rent\tx", "Ünïcödé – dash", "Rent\r\nCRLF"}
				var extra []kj.Dir
				for k := range j.Dirs {
					if j.Dirs[k].K != "trx" || !strings.HasPrefix(j.Dirs[k].Desc, "t") {
						continue
					}
					j.Dirs[k].Desc = descs[rng.Intn(len(descs))]
					if rng.Intn(2) == 0 { // a sibling on the same day over the same accounts, with zero amounts
						sib := kj.Dir{K: "trx", Z: j.Dirs[k].Z, Desc: descs[rng.Intn(len(descs))]}
						for _, b := range j.Dirs[k].Bk {
							sib.Bk = append(sib.Bk, kj.Booking{Cr: b.Cr, Dr: b.Dr, C: b.C, Q: 0})
						}
						extra = append(extra, sib)
					}
				}
				j.Dirs = append(j.Dirs, extra...)
			}
		}
		js[i] = j
		cases[i] = j.Case(i+1, "print", nil)
	}
	core.Parallel(n, func(i int) { observePrint(bin, root, i+1, js[i], valued[i], cases[i]) })
	// (T) hand-written journals from the odd corners of the input space: judged on the observations alone
	corpus := oddJournals()
	for k, t := range corpus {
		cs := map[string]any{"id": 7000000 + k, "kind": "text"}
		observePrintText(bin, root, 7000000+k, t, strings.Contains(t, " price "), cs)
		cases = append(cases, cs)
	}
	c.Add("corpus_journals", len(corpus))
	nt := 0
	for _, cs := range cases {
		if cs["obs"].(map[string]any)["accepted"].(bool) {
			nt++
		}
	}
	c.Add("evaluations", n)
	c.Add("distinct_nontrivial", nt)
	c.Sample(map[string]any{"journal": cases[0]["text"], "printed": cases[0]["printedText"]})
	c.JudgeAndReport("Trace_Print", "Trace_Print.cfg", cases, 16,
		func(old map[string]any) map[string]any {
			id := old["id"].(int)
			if id >= 7000000 {
				observePrintText(bin, root, id, corpus[id-7000000], strings.Contains(corpus[id-7000000], " price "), old)
				return old
			}
			observePrint(bin, root, id, js[id-1], valued[id-1], old)
			return old
		},
		func(cs map[string]any) (string, string) {
			sig := "print:" + fmt.Sprint(cs["why"])
			if cs["why"] == "printed-journal-is-not-accepted" && strings.Contains(fmt.Sprint(cs["check2err"]), "while parsing `balance` directive") {
				sig = "D7:multi-line-assertion-followed-by-assertion"
			}
			return sig, fmt.Sprintf("print round trip: %v\ncheck of the printed journal: %v\n%v\n--- original\n%v\n--- printed\n%v\n--- printed twice\n%v", cs["why"], cs["check2err"], cs["diff"], cs["text"], cs["printedText"], cs["printedTwice"])
		})
}
