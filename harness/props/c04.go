package props

import (
	"fmt"
	"math/rand"
	"os"
	"path/filepath"
	"regexp"
	"sort"
	"strings"
	"time"

	"kv/core"
	"kv/kj"
)

var reDate = regexp.MustCompile(`\d{4}-\d{2}-\d{2}`)

// observeCheck runs the real `knut check` on the rendered journal.
func observeCheck(knut, dir string, id int, j *kj.Journal, cs map[string]any) {
	file := filepath.Join(dir, fmt.Sprintf("c%d.knut", id))
	text := j.Render()
	os.WriteFile(file, []byte(text), 0o644)
	defer os.Remove(file)
	r := core.Run(core.RunOpts{Timeout: 30 * time.Second}, knut, "check", file)
	obs := map[string]any{"accept": r.Exit == 0, "exit": r.Exit, "errz": 0, "erraccts": []any{}}
	if r.Exit != 0 {
		// diagnostic: message, blank line, printed directive
		if m := reDate.FindString(r.Stderr); m != "" {
			if z, ok := parseYMD(m); ok {
				obs["errz"] = z
			}
		}
		accts := []any{}
		for a := range cs["ty"].(map[string]any) {
			if strings.Contains(r.Stderr, a) {
				accts = append(accts, a)
			}
		}
		obs["erraccts"] = accts
		obs["stderr"] = r.Stderr
	}
	if r.TimedOut || r.Exit < 0 || strings.Contains(r.Stderr, "panic:") {
		obs["accept"] = false
		obs["errz"] = -1
	}
	// "check exits 0, and every report command proceeds": the report commands must agree with check, also
	// when the report's window ends before the offending directive
	reports := []any{}
	if id%3 == 0 {
		lo, hi := journalSpan(j)
		for _, argv := range [][]string{{"balance", "--color=false"}, {"balance", "--color=false", "--to", ymd((lo + hi) / 2), "--days"}, {"print"}, {"balance", "--color=false", "--from", ymd(hi + 1)},
			{"register", "--color=false"}, {"register", "--color=false", "-m", "0,^(Expenses|Assets)"}, {"balance", "--color=false", "-m", "0,."},
			{"balance", "--color=false", "-v", "CHF"}, {"register", "--color=false", "-v", "CHF"}, {"transcode", "-v", "CHF"}, {"portfolio", "weights", "-v", "CHF"}} {
			rr := core.Run(core.RunOpts{Timeout: 30 * time.Second}, knut, append(argv, file)...)
			reports = append(reports, rr.Exit == 0)
		}
	}
	obs["reports"] = reports
	cs["obs"] = obs
	cs["text"] = text
}

func C04(c *core.Ctx) {
	c.Set("rule", "random journals valid by construction over 6 accounts x 2 commodities x 2-5 days with 0-2 random damages, shuffled; every journal text is distinct by hash; non-trivial = contains a transaction, assertion or close after an open")
	c.Trusted("TLC + Json module", "kj renderer (abstract journal -> knut syntax)", "stderr reader (first date, account names mentioned)")
	c.MC("MC_Lifecycle", c.TierCfg("MC_Lifecycle"), 16, 40*time.Minute)
	knut := c.Knut("")
	rng := rand.New(rand.NewSource(c.Seed))
	n := c.Pick(1500, 20000)
	js := make([]*kj.Journal, n)
	cases := make([]map[string]any, n)
	seen := map[string]bool{}
	for i := range js {
		js[i] = kj.Lifecycle(rng, 18290, 2+rng.Intn(4), []int{0, 0, 1, 1, 2}[rng.Intn(5)], true)
		if i%4 == 3 {
			// the same journal stretched over centuries (a monotone map of its days): early days moved to
			// about 1609, late days to about 2371 - the order of the days, hence the verdict, is unchanged
			lo, hi := 18290+rng.Intn(3), 18291+rng.Intn(4)
			for k := range js[i].Dirs {
				switch z := js[i].Dirs[k].Z; {
				case z < lo && i%8 == 3:
					js[i].Dirs[k].Z = z - 150000
				case z > hi:
					js[i].Dirs[k].Z = z + 110000
				}
			}
		}
		if (i+1)%3 == 0 {
			// the journals that are also run through the report commands get prices for every commodity (before the
			// first day, and a change in the middle): the valued reports have to proceed as well
			lo, hi := journalSpan(js[i])
			cset := map[string]bool{}
			for _, d := range js[i].Dirs {
				for _, b := range d.Bk {
					cset[b.C] = true
				}
				for _, b := range d.Bal {
					cset[b.C] = true
				}
			}
			var cl []string
			for cm := range cset {
				if cm != "CHF" {
					cl = append(cl, cm)
				}
			}
			sort.Strings(cl)
			for k, cm := range cl {
				js[i].Dirs = append(js[i].Dirs, kj.Dir{K: "price", Z: lo - 1, C: cm, P: (2 + k) * kj.PS, T: "CHF"}, kj.Dir{K: "price", Z: (lo + hi) / 2, C: cm, P: (3 + k) * kj.PS, T: "CHF"})
			}
		}
		cases[i] = js[i].Case(i+1, "check", nil)
	}
	dir := filepath.Join(c.Work, "c04")
	os.MkdirAll(dir, 0o755)
	core.Parallel(n, func(i int) { observeCheck(knut, dir, i+1, js[i], cases[i]) })
	acc, nt := 0, 0
	for i, cs := range cases {
		h := core.Sha(cs["text"].(string))
		if !seen[h] {
			seen[h] = true
			for _, d := range js[i].Dirs {
				if d.K != "open" {
					nt++
					break
				}
			}
		}
		if cs["obs"].(map[string]any)["accept"].(bool) {
			acc++
		}
	}
	c.Add("evaluations", n)
	c.Add("distinct_nontrivial", nt)
	c.Set("accepted_by_knut", acc)
	c.Sample(map[string]any{"journal": cases[0]["text"], "obs": cases[0]["obs"]})
	rerun := func(old map[string]any) map[string]any {
		id := old["id"].(int)
		observeCheck(knut, dir, id, js[id-1], old)
		return old
	}
	c.JudgeAndReport("Trace_Ledger", "Trace_Ledger.cfg", cases, 16, rerun, sigC04)
	c04gen(c)
}

var reFailedAssertion = regexp.MustCompile(`failed assertion: (\S+) has position`)

// sigC04 classifies a rejected case narrowly (for KNOWN_FINDINGS matching).
func sigC04(cs map[string]any) (string, string) {
	obs := cs["obs"].(map[string]any)
	what := fmt.Sprintf("knut check verdict/diagnostic disagrees with Ledger.tla (accept=%v)\nstderr: %v\njournal:\n%v", obs["accept"], obs["stderr"], cs["text"])
	if se, _ := obs["stderr"].(string); strings.Contains(se, "failed assertion") && strings.Contains(se, "has position: 0 ") {
		if m := reFailedAssertion.FindStringSubmatch(se); m != nil && !strings.HasPrefix(m[1], "Assets") && !strings.HasPrefix(m[1], "Liabilities") {
			return "D34:assertion-on-nominal-account", what
		}
		return "D1:zero-assertion-on-unbooked-position", what
	}
	if obs["accept"] == true {
		return "accepted-ill-formed", what
	}
	return "rejected-or-misdiagnosed", what
}
