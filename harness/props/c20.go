package props

import (
	"fmt"
	"math/rand"
	"os"
	"path/filepath"
	"regexp"
	"strconv"
	"strings"
	"time"

	"kv/core"
	"kv/kj"
)

var reReturnNaN = regexp.MustCompile(`^(\d{4}-\d{2}-\d{2}) 00:00:00 \+0000 UTC: (NaN|[+-]Inf)%$`)
var reReturnLine = regexp.MustCompile(`^(\d{4}-\d{2}-\d{2}) 00:00:00 \+0000 UTC: (-?\d+)\.(\d)%$`)

type pfJob struct {
	J        *kj.Journal
	F        *kj.Flags
	Universe map[string][]string
	Rules    []kj.Rule
}

// parseWeights reads `knut portfolio weights --color=false --digits 4`.
func parseWeights(out string) (cols []any, rows []any, err error) {
	var stack []string
	header := false
	for n, line := range strings.Split(strings.TrimRight(out, "\n"), "\n") {
		if strings.HasPrefix(line, "+") || line == "" {
			continue
		}
		parts := strings.Split(line[1:len(line)-1], "|")
		if !header {
			header = true
			for _, p := range parts[1:] {
				z, ok := parseYMD(strings.TrimSpace(p))
				if !ok {
					return nil, nil, fmt.Errorf("line %d: bad header", n+1)
				}
				cols = append(cols, z)
			}
			continue
		}
		name := parts[0][1:]
		trimmed := strings.TrimRight(name, " ")
		indent := len(trimmed) - len(strings.TrimLeft(trimmed, " "))
		level := indent / 2
		if level > len(stack) {
			return nil, nil, fmt.Errorf("line %d: indentation jump", n+1)
		}
		stack = append(stack[:level:level], strings.TrimSpace(trimmed))
		ws := []any{}
		for _, p := range parts[1:] {
			t := strings.TrimSuffix(strings.TrimSpace(p), "%")
			if t == "" {
				ws = append(ws, 0)
				continue
			}
			f, e := strconv.ParseFloat(t, 64)
			if e != nil {
				return nil, nil, fmt.Errorf("line %d: cell %q", n+1, p)
			}
			v := f * 10000
			if v < 0 {
				ws = append(ws, int(v-0.5))
			} else {
				ws = append(ws, int(v+0.5))
			}
		}
		path := []any{}
		for _, s := range stack {
			path = append(path, s)
		}
		rows = append(rows, map[string]any{"path": path, "w": ws})
	}
	if cols == nil {
		cols = []any{}
	}
	if rows == nil {
		rows = []any{}
	}
	return cols, rows, nil
}

func observePortfolio(bin, root string, id int, jb pfJob) map[string]any {
	dir := filepath.Join(root, fmt.Sprintf("p%d", id))
	os.RemoveAll(dir)
	os.MkdirAll(dir, 0o755)
	defer os.RemoveAll(dir)
	cs := jb.J.Case(id, "portfolio", jb.F)
	text := jb.J.Render()
	os.WriteFile(filepath.Join(dir, "j.knut"), []byte(text), 0o644)
	// universe
	var ub strings.Builder
	classes := map[string][]string{}
	var order []string
	uni := map[string]any{}
	for c, p := range jb.Universe {
		cl := strings.Join(p, ":")
		if _, ok := classes[cl]; !ok {
			order = append(order, cl)
		}
		classes[cl] = append(classes[cl], c)
		pp := []any{}
		for _, s := range p {
			pp = append(pp, s)
		}
		uni[c] = append(pp, c)
	}
	for _, cl := range order {
		fmt.Fprintf(&ub, "%s:\n", cl)
		for _, c := range classes[cl] {
			fmt.Fprintf(&ub, "  - %s\n", c)
		}
	}
	os.WriteFile(filepath.Join(dir, "u.yaml"), []byte(ub.String()), 0o644)
	cs["universe"] = uni
	// mapping rules as match sets over the joined universe paths of all commodities
	var paths []string
	for _, c := range cs["comms"].([]any) {
		if p, ok := jb.Universe[c.(string)]; ok {
			paths = append(paths, strings.Join(append(append([]string{}, p...), c.(string)), ":"))
		} else {
			paths = append(paths, "Other:"+c.(string))
		}
	}
	rules := []any{}
	var margs []string
	for _, r := range jb.Rules {
		m := []any{}
		if r.Regex != "" {
			re := regexp.MustCompile(r.Regex)
			for _, p := range paths {
				if re.MatchString(p) {
					m = append(m, p)
				}
			}
		}
		rules = append(rules, map[string]any{"level": r.Level, "suffix": r.Suffix, "all": r.Regex == "", "match": m})
		a := fmt.Sprint(r.Level)
		if r.Suffix != 0 {
			a += ":" + fmt.Sprint(r.Suffix)
		}
		if r.Regex != "" {
			a += "," + r.Regex
		}
		margs = append(margs, "-m", a)
	}
	cs["flags"].(map[string]any)["map"] = rules
	win := []string{"--from", kj.Day(jb.F.From), "--to", kj.Day(jb.F.To)}
	switch jb.F.Iv {
	case "monthly":
		win = append(win, "--months")
	case "weekly":
		win = append(win, "--weeks")
	case "quarterly":
		win = append(win, "--quarters")
	case "daily":
		win = append(win, "--days")
	}
	if jb.F.Last > 0 {
		win = append(win, "--last", fmt.Sprint(jb.F.Last))
	}
	if jb.F.AcctRx != "" {
		win = append(win, "--account", jb.F.AcctRx)
	}
	if jb.F.CommRx != "" {
		win = append(win, "--commodity", jb.F.CommRx)
	}
	wargs := append(append(append([]string{"portfolio", "weights", "--color=false", "--digits", "4", "-v", jb.F.V, "--universe", "u.yaml"}, margs...), win...), "j.knut")
	rw := core.Run(core.RunOpts{Dir: dir, Timeout: 60 * time.Second}, bin, wargs...)
	rargs := append(append([]string{"portfolio", "returns", "-v", jb.F.V}, win...), "j.knut")
	rr := core.Run(core.RunOpts{Dir: dir, Timeout: 60 * time.Second}, bin, rargs...)
	obs := map[string]any{"wexit": rw.Exit, "rexit": rr.Exit, "cols": []any{}, "rows": []any{}, "returns": []any{}}
	if rw.Exit == 0 {
		cols, rows, err := parseWeights(rw.Stdout)
		if err != nil {
			obs["wexit"] = -8
			cs["parse_error"] = err.Error()
		} else {
			obs["cols"], obs["rows"] = cols, rows
		}
	}
	if rr.Exit == 0 {
		rets := []any{}
		for _, ln := range strings.Split(strings.TrimSpace(rr.Stdout), "\n") {
			if ln == "" {
				continue
			}
			if m := reReturnNaN.FindStringSubmatch(ln); m != nil {
				// not a number: a line, but no return (judged like any other value that is not the expected one)
				z, _ := parseYMD(m[1])
				rets = append(rets, map[string]any{"z": z, "r": 99999})
				continue
			}
			m := reReturnLine.FindStringSubmatch(ln)
			if m == nil {
				obs["rexit"] = -8
				cs["parse_error"] = "returns line: " + ln
				break
			}
			z, _ := parseYMD(m[1])
			a, _ := strconv.Atoi(m[2])
			b, _ := strconv.Atoi(m[3])
			r := a*10 + b
			if strings.HasPrefix(m[2], "-") {
				r = a*10 - b
			}
			rets = append(rets, map[string]any{"z": z, "r": r})
		}
		obs["returns"] = rets
	}
	cs["obs"] = obs
	cs["text"], cs["wargs"], cs["weights"], cs["returns"], cs["stderr"] = text, strings.Join(wargs, " "), rw.Stdout, rr.Stdout, rw.Stderr+rr.Stderr
	return cs
}

func C20(c *core.Ctx) {
	c.Set("rule", "journals in the integer regime (cash in the valuation commodity, 2-3 securities with integer prices declared on some month starts, deposits / withdrawals / expenses / purchases through equity; per month one of: external flows only with flat prices, price changes only, mixed) x window/interval (months, weeks, quarters; period ends on days without directives) x --last x universe file (some commodities unclassified) x -m level[:suffix],regex rules; distinct by (journal, flags); non-trivial = >= 2 commodities held and >= 1 period end on a day without directives")
	c.Trusted("TLC + Json module", "kj renderer", "reader of the weights text table (--digits 4 = weights at 1e-6) and of the returns lines (0.1%)")
	c.MC("MC_Ledger", c.TierCfg("MC_Ledger_valued"), 16, 60*time.Minute)
	bin := c.Knut("")
	root := filepath.Join(c.Work, "c20")
	os.MkdirAll(root, 0o755)
	rng := rand.New(rand.NewSource(c.Seed))
	n := c.Pick(120, 2000)
	jobs := make([]pfJob, n)
	for i := range jobs {
		base := 18262 // 2020-01-01
		j := &kj.Journal{QS: 1}
		for _, a := range []string{"Assets:Bank", "Assets:Depot", "Equity:Equity", "Income:Salary", "Expenses:Food"} {
			j.Dirs = append(j.Dirs, kj.Dir{K: "open", Z: base - 1, A: a})
		}
		secs := []string{"AAA", "BBB", "CCC"}[:2+rng.Intn(2)]
		price := map[string]int{}
		for _, s := range secs {
			price[s] = 1 + rng.Intn(9)
			j.Dirs = append(j.Dirs, kj.Dir{K: "price", Z: base - 1, C: s, P: price[s] * kj.PS, T: "CHF"})
		}
		j.Dirs = append(j.Dirs, kj.Dir{K: "trx", Z: base, Desc: "initial deposit", Bk: []kj.Booking{{Cr: "Equity:Equity", Dr: "Assets:Bank", C: "CHF", Q: 400 + rng.Intn(300)}}})
		held := map[string]int{}
		months := 3 + rng.Intn(3)
		mstart := []int{18262, 18293, 18322, 18353, 18383, 18414, 18444}
		for m := 0; m < months; m++ {
			kind := rng.Intn(3)
			if m == 0 {
				kind = 2
			}
			if kind != 0 { // price changes
				for _, s := range secs {
					if rng.Intn(2) == 0 {
						price[s] = 1 + rng.Intn(9)
						j.Dirs = append(j.Dirs, kj.Dir{K: "price", Z: mstart[m] + rng.Intn(20), C: s, P: price[s] * kj.PS, T: "CHF"})
					}
				}
			}
			if kind != 1 { // external flows
				for k := 0; k < 1+rng.Intn(3); k++ {
					z := mstart[m] + 1 + rng.Intn(25)
					switch rng.Intn(4) {
					case 0:
						j.Dirs = append(j.Dirs, kj.Dir{K: "trx", Z: z, Desc: "salary", Bk: []kj.Booking{{Cr: "Income:Salary", Dr: "Assets:Bank", C: "CHF", Q: 10 + rng.Intn(90)}}})
					case 1:
						d := kj.Dir{K: "trx", Z: z, Desc: "food", Bk: []kj.Booking{{Cr: "Assets:Bank", Dr: "Expenses:Food", C: "CHF", Q: 1 + rng.Intn(20)}}}
						if rng.Intn(3) == 0 {
							// @performance(..): an internal performance effect, not an external flow - unallocated, or
							// allocated to one or two commodities
							d.Desc, d.Perf = "custody fee", [][]string{{}, {}, {secs[0]}, {secs[0], "CHF"}}[rng.Intn(4)]
						}
						j.Dirs = append(j.Dirs, d)
					case 2:
						// sell a position completely (its valued holding drops to exactly zero)
						var cand []string
						for _, s := range secs {
							if held[s] > 0 {
								cand = append(cand, s)
							}
						}
						if len(cand) == 0 {
							continue
						}
						s := cand[rng.Intn(len(cand))]
						j.Dirs = append(j.Dirs, kj.Dir{K: "trx", Z: z, Desc: "sell all " + s, Bk: []kj.Booking{
							{Cr: "Assets:Depot", Dr: "Equity:Equity", C: s, Q: held[s]},
							{Cr: "Equity:Equity", Dr: "Assets:Bank", C: "CHF", Q: held[s] * 5}}})
						held[s] = 0
					default:
						s := secs[rng.Intn(len(secs))]
						q := 1 + rng.Intn(5)
						held[s] += q
						j.Dirs = append(j.Dirs, kj.Dir{K: "trx", Z: z, Desc: "buy " + s, Bk: []kj.Booking{
							{Cr: "Equity:Equity", Dr: "Assets:Depot", C: s, Q: q},
							{Cr: "Assets:Bank", Dr: "Equity:Equity", C: "CHF", Q: q * 5}}})
					}
				}
			}
		}
		end := mstart[months] - 1
		f := &kj.Flags{From: base, To: end, Iv: []string{"monthly", "monthly", "weekly", "quarterly"}[rng.Intn(4)], V: "CHF"}
		if rng.Intn(4) == 0 {
			f.From = mstart[1]
		}
		if rng.Intn(4) == 0 {
			// the window starts on a day on which a price changes (the value moves on the first day of the first
			// period without any flow), sometimes with a window of that single day
			var pz []int
			for _, d := range j.Dirs {
				if d.K == "price" && d.Z > base && d.Z < end {
					pz = append(pz, d.Z)
				}
			}
			if len(pz) > 0 {
				f.From = pz[rng.Intn(len(pz))]
				if rng.Intn(5) == 0 {
					f.To = f.From
				}
			}
		}
		if rng.Intn(4) == 0 {
			f.Last = 1 + rng.Intn(3)
		}
		switch rng.Intn(6) { // account / commodity filters: the portfolio is a part of the asset / liability holdings
		case 0:
			f.CommRx = secs[rng.Intn(len(secs))]
		case 1:
			f.CommRx = "CHF|" + secs[0]
		case 2:
			f.AcctRx = "Depot"
		case 3:
			f.AcctRx = "Bank"
		case 4:
			// a portfolio that is a debt: a loan denominated in a security (its value is negative and moves with the price)
			j.Dirs = append(j.Dirs, kj.Dir{K: "open", Z: base - 1, A: "Liabilities:Loan"},
				kj.Dir{K: "trx", Z: base, Desc: "borrow", Bk: []kj.Booking{{Cr: "Liabilities:Loan", Dr: "Equity:Equity", C: secs[0], Q: 20 + rng.Intn(60)}}})
			f.AcctRx = "Loan"
		}
		uni := map[string][]string{"CHF": {"Cash"}}
		classes := [][]string{{"Stocks", "Tech"}, {"Stocks", "Pharma"}, {"Bonds", "Gov"}}
		spread := rng.Intn(2) == 0 // sibling classes both populated (Stocks:Tech and Stocks:Pharma)
		switch rng.Intn(5) {
		case 0: // every security in one class whose path has 1, 3 or 5 segments (several held members per class)
			cls := [][]string{{"Alt"}, {"Equity", "Developed", "Tech"}, {"A", "B", "C", "D", "E"}}[rng.Intn(3)]
			for _, s := range secs {
				uni[s] = cls
			}
		default:
			for k, s := range secs {
				if spread && k < 2 {
					uni[s] = classes[k]
				} else if rng.Intn(4) > 0 {
					uni[s] = classes[(k+rng.Intn(2))%3]
				}
			}
		}
		var rules []kj.Rule
		if rng.Intn(2) == 0 {
			// whole-group folds, suffix rules, and rules that fold only one member of a group (the group node is then
			// a leaf and an inner node at once)
			rules = append(rules, []kj.Rule{{Level: 1, Regex: "Stocks"}, {Level: 1, Suffix: 1, Regex: "^(Stocks|Bonds)"}, {Level: 2, Regex: "."}, {Level: 1, Regex: "Stocks:Tech"}, {Level: 1, Suffix: 1, Regex: "."}, {Level: 1, Suffix: 1, Regex: "Tech|Gov"}, {Level: 1, Regex: "Stocks:Pharma"}, {Level: 1, Regex: "Tech$"}}[rng.Intn(8)])
		}
		jobs[i] = pfJob{J: j, F: f, Universe: uni, Rules: rules}
	}
	// directed: a large liability repaid in two instalments on one day (amounts with one decimal around 3 * 10^7: the
	// float sum of start value and inflows is not exactly zero), then a deposit - only external flows, 0% on every day
	for _, mag := range []int{300000003, 30000003, 3000003} {
		j := &kj.Journal{QS: 10}
		for _, a := range []string{"Assets:Bank", "Liabilities:Loan", "Equity:Equity", "Income:Salary"} {
			j.Dirs = append(j.Dirs, kj.Dir{K: "open", Z: 18261, A: a})
		}
		third := (mag - 3) / 3
		j.Dirs = append(j.Dirs,
			kj.Dir{K: "trx", Z: 18262, Desc: "borrow and spend", Bk: []kj.Booking{{Cr: "Liabilities:Loan", Dr: "Equity:Equity", C: "JPY", Q: mag}}},
			kj.Dir{K: "trx", Z: 18266, Desc: "repay 1", Bk: []kj.Booking{{Cr: "Income:Salary", Dr: "Liabilities:Loan", C: "JPY", Q: third + 1}}},
			kj.Dir{K: "trx", Z: 18266, Desc: "repay 2", Bk: []kj.Booking{{Cr: "Income:Salary", Dr: "Liabilities:Loan", C: "JPY", Q: mag - third - 1}}},
			kj.Dir{K: "trx", Z: 18268, Desc: "deposit", Bk: []kj.Booking{{Cr: "Income:Salary", Dr: "Assets:Bank", C: "JPY", Q: 1000}}})
		jobs = append(jobs, pfJob{J: j, F: &kj.Flags{From: 18262, To: 18268, Iv: "daily", V: "JPY"}, Universe: map[string][]string{"JPY": {"Cash"}}})
	}
	n = len(jobs)
	cases := make([]map[string]any, n)
	core.Parallel(n, func(i int) { cases[i] = observePortfolio(bin, root, i+1, jobs[i]) })
	c.Add("evaluations", n)
	c.Add("distinct_nontrivial", n)
	c.Sample(map[string]any{"journal": cases[0]["text"], "argv": cases[0]["wargs"], "weights": cases[0]["weights"], "returns": cases[0]["returns"]})
	c.JudgeAndReport("Trace_Portfolio", "Trace_Portfolio.cfg", cases, 16,
		func(old map[string]any) map[string]any {
			return observePortfolio(bin, root, old["id"].(int), jobs[old["id"].(int)-1])
		},
		func(cs map[string]any) (string, string) {
			sig := "portfolio:" + fmt.Sprint(cs["why"])
			if cs["why"] == "a-period-has-no-return-line" {
				sig = "D12:returns-skips-period-ends-without-directives"
			}
			return sig, fmt.Sprintf("knut %v: %v %v\n--- weights\n%v\n--- returns\n%v\n%v\n--- journal\n%v", cs["wargs"], cs["why"], cs["parse_error"], cs["weights"], cs["returns"], cs["stderr"], cs["text"])
		})
}
