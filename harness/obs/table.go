// Package obs reads knut's outputs (text tables, printed journals, ...).
package obs

import (
	"fmt"
	"strings"
	"unicode/utf8"
)

type Row struct {
	Section string   // AL | EIE | TotalAL | TotalEIE | Delta
	Path    []string // account path by indentation (for AL/EIE rows)
	Comm    string
	Cells   []string // raw trimmed cell text, one per column
	Line    int
}

type BalanceTable struct {
	HasComm bool
	Cols    []string
	Rows    []Row
	Lines   []string
}

// ParseBalanceText reads the output of `knut balance --color=false`.
func ParseBalanceText(out string) (*BalanceTable, error) {
	t := &BalanceTable{}
	lines := strings.Split(strings.TrimRight(out, "\n"), "\n")
	t.Lines = lines
	section := "AL"
	var stack []string // account path by indent level
	headerSeen := false
	lastName := ""
	lastSection := ""
	var lastPath []string
	for ln, line := range lines {
		if strings.HasPrefix(line, "+") {
			continue
		}
		if !strings.HasPrefix(line, "|") || !strings.HasSuffix(line, "|") {
			return nil, fmt.Errorf("line %d: not a table row: %q", ln+1, line)
		}
		parts := strings.Split(line[1:len(line)-1], "|")
		if !headerSeen {
			headerSeen = true
			if strings.TrimSpace(parts[0]) != "Account" {
				return nil, fmt.Errorf("line %d: header expected: %q", ln+1, line)
			}
			rest := parts[1:]
			if len(rest) > 0 && strings.TrimSpace(rest[0]) == "Comm" {
				t.HasComm = true
				rest = rest[1:]
			}
			for _, c := range rest {
				t.Cols = append(t.Cols, strings.TrimSpace(c))
			}
			continue
		}
		name := parts[0]
		if len(name) > 0 {
			name = name[1:] // the cell's left padding blank
		}
		trimmed := strings.TrimRight(name, " ")
		indent := len(trimmed) - len(strings.TrimLeft(trimmed, " "))
		label := strings.TrimSpace(trimmed)
		rest := parts[1:]
		comm := ""
		if t.HasComm {
			comm = strings.TrimSpace(rest[0])
			rest = rest[1:]
		}
		cells := make([]string, len(rest))
		allEmpty := true
		for i, c := range rest {
			cells[i] = strings.TrimSpace(c)
			if cells[i] != "" {
				allEmpty = false
			}
		}
		if len(cells) != len(t.Cols) {
			return nil, fmt.Errorf("line %d: %d cells, %d columns", ln+1, len(cells), len(t.Cols))
		}
		if label == "" && comm == "" && allEmpty {
			continue // spacer row
		}
		r := Row{Comm: comm, Cells: cells, Line: ln + 1}
		if label == "" {
			// continuation row (next commodity of the same account)
			r.Section, r.Path = lastSection, lastPath
			_ = lastName
		} else {
			switch {
			case indent == 0 && label == "Total (A+L)":
				r.Section = "TotalAL"
				section = "EIE"
			case indent == 0 && label == "Total (E+I+E)":
				r.Section = "TotalEIE"
			case indent == 0 && label == "Delta":
				r.Section = "Delta"
			default:
				level := indent / 2
				if level > len(stack) {
					return nil, fmt.Errorf("line %d: indentation jumps: %q", ln+1, line)
				}
				stack = append(stack[:level:level], label)
				r.Section = section
				r.Path = append([]string(nil), stack...)
			}
			lastSection, lastPath, lastName = r.Section, r.Path, label
		}
		t.Rows = append(t.Rows, r)
	}
	if !headerSeen {
		return nil, fmt.Errorf("no header")
	}
	return t, nil
}

// LineWidths returns the rune width of every line and the rune columns of '|' / '+'.
func LineShape(line string) (width int, seps []int) {
	col := 0
	sepRune := '|'
	if strings.HasPrefix(line, "+") {
		sepRune = '+' // rule lines; in data lines '+' may occur in labels such as "Total (A+L)"
	}
	for _, r := range line {
		if r == sepRune {
			seps = append(seps, col)
		}
		col++
	}
	return utf8.RuneCountInString(line), seps
}

// Num strips thousands separators from a rendered number.
func Num(cell string) string { return strings.ReplaceAll(cell, ",", "") }
