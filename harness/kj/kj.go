// Package kj holds the abstract journal used by the Ledger-family checks: the Go
// mirror of the `case` record of spec/Ledger.tla, its rendering to knut syntax, and
// seeded generators.  It computes nothing about the expected result.
package kj

import (
	"fmt"
	"math/rand"
	"regexp"
	"sort"
	"strings"
	"time"
)

type Booking struct {
	Cr, Dr, C string
	Q         int // at scale QS
}

type Accrual struct {
	On   bool
	Iv   string
	S, E int
	A    string
}

type Bal struct {
	A, C string
	Q    int
}

type Dir struct {
	K     string // open close price trx assert
	Z     int
	A     string // open/close
	C, T  string // price: commodity, target
	P     int    // price at scale 10^4
	Bk    []Booking
	Acc   Accrual
	Bal   []Bal
	Desc  string
	Perf  []string // @performance targets (nil = none)
	Multi bool     // render assertion in multi-line form
}

type Rule struct {
	Level, Suffix int
	Regex         string // "" = all
}

type Flags struct {
	From, To    int
	Iv          string
	Last        int
	Diff, Close bool
	AcctRx      string // "" = all
	CommRx      string
	Map         []Rule
	RemapRx     string
	ShowRx      string // --show-commodities (valued reports: per-commodity rows for matching accounts)
	V           string
}

type Journal struct {
	QS   int
	Dirs []Dir
}

const PS = 10000 // price scale

func Day(z int) string { return time.Unix(int64(z)*86400, 0).UTC().Format("2006-01-02") }

// Dec renders a scaled integer as a decimal string without trailing zeros.
func Dec(v, scale int) string {
	neg := v < 0
	if neg {
		v = -v
	}
	ip, fp := v/scale, v%scale
	s := fmt.Sprint(ip)
	if fp != 0 {
		digits := len(fmt.Sprint(scale)) - 1
		f := fmt.Sprintf("%0*d", digits, fp)
		f = strings.TrimRight(f, "0")
		s += "." + f
	}
	if neg {
		s = "-" + s
	}
	return s
}

// Render writes the journal in knut syntax, directives in the given order.
func (j *Journal) Render() string {
	var b strings.Builder
	for _, d := range j.Dirs {
		b.WriteString(j.RenderDir(d))
		b.WriteString("\n")
	}
	return b.String()
}

func (j *Journal) RenderDir(d Dir) string {
	var b strings.Builder
	switch d.K {
	case "open":
		fmt.Fprintf(&b, "%s open %s\n", Day(d.Z), d.A)
	case "close":
		fmt.Fprintf(&b, "%s close %s\n", Day(d.Z), d.A)
	case "price":
		fmt.Fprintf(&b, "%s price %s %s %s\n", Day(d.Z), d.C, Dec(d.P, PS), d.T)
	case "trx":
		if d.Perf != nil {
			fmt.Fprintf(&b, "@performance(%s)\n", strings.Join(d.Perf, ","))
		}
		if d.Acc.On {
			fmt.Fprintf(&b, "@accrue %s %s %s %s\n", d.Acc.Iv, Day(d.Acc.S), Day(d.Acc.E), d.Acc.A)
		}
		desc := d.Desc
		if desc == "" {
			desc = "t"
		}
		fmt.Fprintf(&b, "%s \"%s\"\n", Day(d.Z), desc)
		for _, bk := range d.Bk {
			fmt.Fprintf(&b, "%s %s %s %s\n", bk.Cr, bk.Dr, Dec(bk.Q, j.QS), bk.C)
		}
	case "assert":
		if len(d.Bal) == 1 && !d.Multi {
			fmt.Fprintf(&b, "%s balance %s %s %s\n", Day(d.Z), d.Bal[0].A, Dec(d.Bal[0].Q, j.QS), d.Bal[0].C)
		} else {
			fmt.Fprintf(&b, "%s balance\n", Day(d.Z))
			for _, bl := range d.Bal {
				fmt.Fprintf(&b, "%s %s %s\n", bl.A, Dec(bl.Q, j.QS), bl.C)
			}
		}
	}
	return b.String()
}

// ---------------------------------------------------------------- to the TLA+ case

func typeLetter(name string) string {
	switch strings.SplitN(name, ":", 2)[0] {
	case "Assets":
		return "A"
	case "Liabilities":
		return "L"
	case "Equity":
		return "Q"
	case "Income":
		return "I"
	case "Expenses":
		return "X"
	}
	return "?"
}

func swapName(n string) string {
	ss := strings.SplitN(n, ":", 2)
	sw := map[string]string{"Assets": "Liabilities", "Liabilities": "Assets", "Income": "Expenses", "Expenses": "Income"}
	h, ok := sw[ss[0]]
	if !ok {
		return n
	}
	if len(ss) == 1 {
		return h
	}
	return h + ":" + ss[1]
}

// closure of account names the model may need: used accounts, valuation accounts,
// swapped names, every shortening (any level/suffix), ancestors.
func (j *Journal) accountClosure(f *Flags) []string {
	set := map[string]bool{"Equity:Equity": true}
	add := func(n string) { set[n] = true }
	for _, d := range j.Dirs {
		switch d.K {
		case "open", "close":
			add(d.A)
		case "trx":
			for _, b := range d.Bk {
				add(b.Cr)
				add(b.Dr)
			}
			if d.Acc.On {
				add(d.Acc.A)
			}
		case "assert":
			for _, b := range d.Bal {
				add(b.A)
			}
		}
	}
	// valuation accounts
	for n := range set {
		if t := typeLetter(n); t == "A" || t == "L" {
			ss := strings.Split(n, ":")
			add(strings.Join(append([]string{"Income"}, ss[1:]...), ":"))
		}
	}
	for n := range set {
		add(swapName(n))
	}
	if f != nil {
		for n := range set {
			ss := strings.Split(n, ":")
			for _, r := range f.Map {
				if r.Level == 0 || r.Suffix >= len(ss) || r.Level > len(ss)-r.Suffix {
					continue
				}
				out := append(append([]string{}, ss[:r.Level]...), ss[len(ss)-r.Suffix:]...)
				add(strings.Join(out, ":"))
			}
		}
	}
	for n := range set {
		ss := strings.Split(n, ":")
		for k := 1; k < len(ss); k++ {
			add(strings.Join(ss[:k], ":"))
		}
	}
	var out []string
	for n := range set {
		out = append(out, n)
	}
	sort.Strings(out)
	return out
}

func (j *Journal) commodities(f *Flags) []string {
	set := map[string]bool{}
	for _, d := range j.Dirs {
		switch d.K {
		case "price":
			set[d.C], set[d.T] = true, true
		case "trx":
			for _, b := range d.Bk {
				set[b.C] = true
			}
		case "assert":
			for _, b := range d.Bal {
				set[b.C] = true
			}
		}
	}
	if f != nil && f.V != "" {
		set[f.V] = true
	}
	var out []string
	for n := range set {
		out = append(out, n)
	}
	sort.Strings(out)
	return out
}

func matching(rx string, names []string) []any {
	out := []any{}
	if rx == "" {
		return out
	}
	re := regexp.MustCompile(rx)
	for _, n := range names {
		if re.MatchString(n) {
			out = append(out, n)
		}
	}
	return out
}

// Case builds the JSON record handed to TLC (spec/Ledger.tla `case`).
func (j *Journal) Case(id int, kind string, f *Flags) map[string]any {
	accts := j.accountClosure(f)
	comms := j.commodities(f)
	ty, segs := map[string]any{}, map[string]any{}
	for _, a := range accts {
		ty[a] = typeLetter(a)
		ss := []any{}
		for _, s := range strings.Split(a, ":") {
			ss = append(ss, s)
		}
		segs[a] = ss
	}
	var dirs []any
	for _, d := range j.Dirs {
		m := map[string]any{"k": d.K, "z": d.Z}
		switch d.K {
		case "open", "close":
			m["a"] = d.A
		case "price":
			m["c"], m["p"], m["t"] = d.C, d.P, d.T
		case "trx":
			bk := []any{}
			for _, b := range d.Bk {
				bk = append(bk, map[string]any{"cr": b.Cr, "dr": b.Dr, "c": b.C, "q": b.Q})
			}
			m["bk"] = bk
			m["perf"] = d.Perf != nil
			if d.Acc.On {
				m["acc"] = map[string]any{"on": true, "iv": d.Acc.Iv, "s": d.Acc.S, "e": d.Acc.E, "a": d.Acc.A}
			} else {
				m["acc"] = map[string]any{"on": false}
			}
		case "assert":
			bl := []any{}
			for _, b := range d.Bal {
				bl = append(bl, map[string]any{"a": b.A, "c": b.C, "q": b.Q})
			}
			m["bal"] = bl
		}
		dirs = append(dirs, m)
	}
	cs := map[string]any{"id": id, "kind": kind, "qs": j.QS, "ty": ty, "segs": segs, "comms": toAny(comms), "journal": dirs, "V": ""}
	if f != nil {
		cs["V"] = f.V
		rules := []any{}
		for _, r := range f.Map {
			rules = append(rules, map[string]any{"level": r.Level, "suffix": r.Suffix, "all": r.Regex == "", "match": matching(r.Regex, accts)})
		}
		cs["flags"] = map[string]any{
			"from": f.From, "to": f.To, "iv": f.Iv, "last": f.Last, "diff": f.Diff, "close": f.Close,
			"acctAll": f.AcctRx == "", "accts": matching(f.AcctRx, accts),
			"commAll": f.CommRx == "", "commsF": matching(f.CommRx, comms),
			"map": rules, "remap": matching(f.RemapRx, accts), "show": matching(f.ShowRx, accts),
		}
	}
	return cs
}

func toAny(ss []string) []any {
	out := make([]any, len(ss))
	for i, s := range ss {
		out[i] = s
	}
	return out
}

// Args renders the flags as `knut balance` arguments.
func (f *Flags) Args() []string {
	a := []string{"--from", Day(f.From), "--to", Day(f.To)}
	switch f.Iv {
	case "once":
	case "daily":
		a = append(a, "--days")
	case "weekly":
		a = append(a, "--weeks")
	case "monthly":
		a = append(a, "--months")
	case "quarterly":
		a = append(a, "--quarters")
	case "yearly":
		a = append(a, "--years")
	}
	if f.Last != 0 {
		a = append(a, "--last", fmt.Sprint(f.Last))
	}
	if f.Diff {
		a = append(a, "--diff")
	}
	if !f.Close {
		a = append(a, "--close=false")
	}
	if f.V != "" {
		a = append(a, "-v", f.V)
	}
	if f.AcctRx != "" {
		a = append(a, "--account", f.AcctRx)
	}
	if f.CommRx != "" {
		a = append(a, "--commodity", f.CommRx)
	}
	for _, r := range f.Map {
		s := fmt.Sprint(r.Level)
		if r.Suffix != 0 {
			s += ":" + fmt.Sprint(r.Suffix)
		}
		if r.Regex != "" {
			s += "," + r.Regex
		}
		a = append(a, "-m", s)
	}
	if f.RemapRx != "" {
		a = append(a, "--remap", f.RemapRx)
	}
	if f.ShowRx != "" {
		a = append(a, "-s", f.ShowRx)
	}
	return a
}

// ---------------------------------------------------------------- generators

type GenOpts struct {
	Valued      bool // exact valued regime: integer quantities, friendly prices
	Accruals    bool
	Damage      bool // lifecycle damage (for C04)
	MaxDirs     int
	Accounts    []string
	Unicode     bool
	DensePrices bool // many price-change days (revaluation on most days)
	AltQuotes   bool // the security is quoted sometimes in USD, sometimes in CHF (edges appear between known commodities later)
}

var friendly = []int{5000, 20000, 40000, 2500, 50000, 2000, 12500, 8000, 100000, 1000, 25000, 4000, 10000}

var DefaultAccounts = []string{
	"Assets:Bank:Checking", "Assets:Bank:Savings", "Assets:Bank", "Assets:Portfolio", "Liabilities:Card", "Liabilities:Loan:Car", "Expenses:Food",
	"Equity:Equity", "Income:Salary", "Income:Gifts:Family", "Expenses:Rent", "Expenses:Food:Groceries", "Expenses:Food:Dining",
	"Expenses:Trips:Rome:Hotel", "Assets:Bank:CH:Main:Sub", "Expenses:Café:Zürich", "Assets:Bank:Épargne", "Expenses:eatingOut", "Assets:Bank:konto9", "Assets:FixedAssets:House", "Liabilities:CurrentLiabilities:Card",
	"Assets", "Equity:Opening", "Assets:1:2", "Assets:bank:checking", "Income", "Expenses:Food:Dining:Out",
}

// Random builds a well-formed journal (every used account opened before use, no closes
// unless zero) with optional damage. base = first day.
func Random(rng *rand.Rand, o GenOpts, base int) *Journal {
	j := &Journal{QS: 100}
	if o.Valued {
		j.QS = 1
	}
	accts := o.Accounts
	if accts == nil {
		accts = DefaultAccounts
	}
	n := 4 + rng.Intn(len(accts)-3)
	perm := rng.Perm(len(accts))
	used := []string{"Equity:Equity"}
	for _, k := range perm[:n] {
		if accts[k] != "Equity:Equity" {
			used = append(used, accts[k])
		}
	}
	comms := []string{"CHF", "USD", "AAPL"}[:1+rng.Intn(3)]
	for _, a := range used {
		j.Dirs = append(j.Dirs, Dir{K: "open", Z: base - rng.Intn(3), A: a})
	}
	span := 10 + rng.Intn(110)
	if o.Valued {
		// price tree: USD -> CHF, AAPL -> USD (chain) or AAPL -> CHF
		pd := []int{base - 3}
		np := 2 + rng.Intn(5)
		if o.DensePrices {
			np = 12 + rng.Intn(20)
		}
		seenDay := map[int]bool{base - 3: true}
		for k := 0; k < np; k++ {
			z := base + rng.Intn(span)
			if !seenDay[z] { // never two prices for one pair on one day (ambiguous by construction)
				seenDay[z] = true
				pd = append(pd, z)
			}
		}
		aaplT := []string{"USD", "CHF"}[rng.Intn(2)]
		for _, z := range pd {
			for _, c := range comms[1:] {
				if z != base-3 && rng.Intn(3) == 0 {
					continue
				}
				p := friendly[rng.Intn(len(friendly))]
				switch c {
				case "USD":
					if rng.Intn(2) == 0 {
						j.Dirs = append(j.Dirs, Dir{K: "price", Z: z, C: "USD", P: p, T: "CHF"})
					} else {
						j.Dirs = append(j.Dirs, Dir{K: "price", Z: z, C: "CHF", P: p, T: "USD"})
					}
				case "AAPL":
					t := aaplT
					if o.AltQuotes && z != base-3 && rng.Intn(2) == 0 {
						t = map[string]string{"USD": "CHF", "CHF": "USD"}[aaplT]
					}
					j.Dirs = append(j.Dirs, Dir{K: "price", Z: z, C: "AAPL", P: p, T: t})
				}
			}
		}
	}
	nt := 2 + rng.Intn(o.MaxDirs)
	// transactions in chronological order so that the generator can steer positions
	// (flatten a position to exactly zero, re-open it later); steering only, no oracle
	zs := make([]int, nt)
	for k := range zs {
		zs[k] = base + rng.Intn(span)
	}
	sort.Ints(zs)
	pos := map[[2]string]int{}
	isAL := func(a string) bool { return strings.HasPrefix(a, "Assets") || strings.HasPrefix(a, "Liabilities") }
	for k := 0; k < nt; k++ {
		d := Dir{K: "trx", Z: zs[k], Desc: fmt.Sprintf("t%d", k)}
		if rng.Intn(4) == 0 && len(pos) > 0 {
			// flatten one existing position exactly
			var keys [][2]string
			for kk, v := range pos {
				if v != 0 {
					keys = append(keys, kk)
				}
			}
			sort.Slice(keys, func(a, b int) bool { return keys[a][0]+keys[a][1] < keys[b][0]+keys[b][1] })
			if len(keys) > 0 {
				kk := keys[rng.Intn(len(keys))]
				d.Bk = append(d.Bk, Booking{Cr: kk[0], Dr: "Equity:Equity", C: kk[1], Q: pos[kk]})
				d.Desc = fmt.Sprintf("flatten%d", k)
				pos[kk] = 0
				j.Dirs = append(j.Dirs, d)
				continue
			}
		}
		for b := 0; b < 1+rng.Intn(3)/2; b++ {
			cr := used[rng.Intn(len(used))]
			dr := used[rng.Intn(len(used))]
			for dr == cr {
				dr = used[rng.Intn(len(used))]
			}
			q := rng.Intn(400) - 50
			if j.QS == 100 {
				q = rng.Intn(100000) - 10000
				if rng.Intn(3) == 0 {
					q = (q / 100) * 100
				}
			}
			if rng.Intn(15) == 0 {
				q = 0
			}
			c := comms[rng.Intn(len(comms))]
			d.Bk = append(d.Bk, Booking{Cr: cr, Dr: dr, C: c, Q: q})
			if isAL(cr) {
				pos[[2]string{cr, c}] -= q
			}
			if isAL(dr) {
				pos[[2]string{dr, c}] += q
			}
		}
		if o.Accruals && rng.Intn(5) == 0 {
			s := base + rng.Intn(span)
			e := s + rng.Intn(100)
			d.Acc = Accrual{On: true, Iv: []string{"daily", "weekly", "monthly", "quarterly"}[1+rng.Intn(3)], S: s, E: e, A: "Assets:Accrual"}
			if rng.Intn(4) == 0 {
				d.Acc.Iv = "daily"
				d.Acc.E = s + rng.Intn(12)
			}
		}
		j.Dirs = append(j.Dirs, d)
	}
	for _, d := range j.Dirs {
		if d.Acc.On {
			j.Dirs = append([]Dir{{K: "open", Z: base - 3, A: "Assets:Accrual"}}, j.Dirs...)
			break
		}
	}
	return j
}

// Lifecycle builds a journal that is valid by construction (the generator follows the
// account lifecycle while emitting directives) and then applies `damage` random edits.
// The generator's bookkeeping only steers generation; the verdict comes from TLC.
func Lifecycle(rng *rand.Rand, base, days, damage int, multi bool) *Journal {
	j := &Journal{QS: 1}
	accts := []string{"Assets:A", "Assets:B:C", "Liabilities:L", "Equity:Equity", "Expenses:X", "Income:I"}
	comms := []string{"CHF", "USD"}
	switch rng.Intn(4) {
	case 0: // unusual but legal names: lower-case and digit-initial segments, non-ASCII, a parent next to its child
		accts = []string{"Assets:a1", "Assets:Ébène:C", "Assets:Ébène", "Liabilities:L", "Equity:Equity", "Expenses:X:y9", "Income:I"}
	case 1:
		comms = []string{"CHF", "X1"}
	}
	open := map[string]bool{}
	qty := map[[2]string]int{}
	isAL := func(a string) bool { return strings.HasPrefix(a, "Assets") || strings.HasPrefix(a, "Liabilities") }
	for d := 0; d < days; d++ {
		z := base + d
		for _, a := range accts {
			if !open[a] && rng.Intn(3) != 0 {
				open[a] = true
				j.Dirs = append(j.Dirs, Dir{K: "open", Z: z, A: a})
			}
		}
		var op []string
		for _, a := range accts {
			if open[a] {
				op = append(op, a)
			}
		}
		if len(op) >= 2 {
			for k := rng.Intn(4); k > 0; k-- {
				t := Dir{K: "trx", Z: z, Desc: fmt.Sprintf("d%dk%d", d, k)}
				for b := 1 + rng.Intn(2); b > 0; b-- {
					cr, dr := op[rng.Intn(len(op))], op[rng.Intn(len(op))]
					if cr == dr {
						continue
					}
					c := comms[rng.Intn(2)]
					q := rng.Intn(6) - 2
					// sometimes empty a position so that closes become possible
					if isAL(dr) && qty[[2]string{dr, c}] != 0 && rng.Intn(2) == 0 {
						q = -qty[[2]string{dr, c}]
					}
					t.Bk = append(t.Bk, Booking{Cr: cr, Dr: dr, C: c, Q: q})
					if isAL(cr) {
						qty[[2]string{cr, c}] -= q
					}
					if isAL(dr) {
						qty[[2]string{dr, c}] += q
					}
				}
				if len(t.Bk) > 0 {
					j.Dirs = append(j.Dirs, t)
				}
			}
		}
		for _, a := range op {
			if isAL(a) && rng.Intn(3) == 0 {
				as := Dir{K: "assert", Z: z, Multi: multi && rng.Intn(2) == 0}
				for _, c := range comms {
					if rng.Intn(2) == 0 || len(as.Bal) == 0 {
						as.Bal = append(as.Bal, Bal{A: a, C: c, Q: qty[[2]string{a, c}]})
					}
				}
				if !multi {
					as.Bal = as.Bal[:1]
				}
				j.Dirs = append(j.Dirs, as)
			}
		}
		for _, a := range op {
			// the statement constrains assertions on asset / liability accounts only: an assertion on an open
			// income, expense or equity account, whatever its amount, does not make a journal ill-formed
			if !isAL(a) && rng.Intn(12) == 0 {
				j.Dirs = append(j.Dirs, Dir{K: "assert", Z: z, Bal: []Bal{{A: a, C: comms[rng.Intn(len(comms))], Q: []int{0, 1, 30, -7}[rng.Intn(4)]}}})
			}
		}
		for _, a := range op {
			if rng.Intn(5) == 0 && a != "Equity:Equity" {
				zero := true
				for _, c := range comms {
					if qty[[2]string{a, c}] != 0 {
						zero = false
					}
				}
				if zero || rng.Intn(6) == 0 {
					j.Dirs = append(j.Dirs, Dir{K: "close", Z: z, A: a})
					if zero {
						open[a] = false
						for _, c := range comms {
							delete(qty, [2]string{a, c})
						}
					}
				}
			}
		}
	}
	for k := 0; k < damage && len(j.Dirs) > 1; k++ {
		i := rng.Intn(len(j.Dirs))
		switch rng.Intn(8) {
		case 6, 7:
			// use after close: the closed account is the last one touched before its close (a zero booking or
			// a zero assertion on the closing day) and the first one touched afterwards (credit side of the first
			// booking, or the first line of an assertion, on the next day)
			var closes []int
			for n, d := range j.Dirs {
				if d.K == "close" {
					closes = append(closes, n)
				}
			}
			if len(closes) > 0 {
				cl := j.Dirs[closes[rng.Intn(len(closes))]]
				if rng.Intn(2) == 0 && isAL(cl.A) { // (the statement speaks about assertions on asset / liability accounts only)
					j.Dirs = append(j.Dirs, Dir{K: "assert", Z: cl.Z, Bal: []Bal{{A: cl.A, C: comms[0], Q: 0}}})
				} else {
					j.Dirs = append(j.Dirs, Dir{K: "trx", Z: cl.Z, Desc: "zz last before close", Bk: []Booking{{Cr: "Equity:Equity", Dr: cl.A, C: comms[0], Q: 0}}})
				}
				if rng.Intn(2) == 0 || !isAL(cl.A) {
					j.Dirs = append(j.Dirs, Dir{K: "trx", Z: cl.Z + 1, Desc: "after close", Bk: []Booking{{Cr: cl.A, Dr: "Equity:Equity", C: comms[0], Q: 1 + rng.Intn(5)}}})
				} else {
					j.Dirs = append(j.Dirs, Dir{K: "assert", Z: cl.Z + 1, Bal: []Bal{{A: cl.A, C: comms[0], Q: 0}}})
				}
			}
		case 0:
			j.Dirs = append(j.Dirs[:i:i], j.Dirs[i+1:]...)
		case 1:
			j.Dirs = append(j.Dirs, j.Dirs[i])
		case 2:
			j.Dirs[i].Z += rng.Intn(3) - 1
		case 3:
			if j.Dirs[i].K == "assert" {
				bl := append([]Bal(nil), j.Dirs[i].Bal...)
				bl[rng.Intn(len(bl))].Q += 1 - 2*rng.Intn(2)
				j.Dirs[i].Bal = bl
			}
		case 4:
			if j.Dirs[i].K == "trx" {
				bk := append([]Booking(nil), j.Dirs[i].Bk...)
				bk[rng.Intn(len(bk))].Q += 1
				j.Dirs[i].Bk = bk
			}
		case 5:
			if j.Dirs[i].K == "open" || j.Dirs[i].K == "close" {
				j.Dirs[i].A = accts[rng.Intn(len(accts))]
			}
		}
	}
	rng.Shuffle(len(j.Dirs), func(a, b int) { j.Dirs[a], j.Dirs[b] = j.Dirs[b], j.Dirs[a] })
	return j
}
