package kj

import (
	"fmt"
	"math/rand"
	"os"
	"path/filepath"
	"strings"
)

// Layout is a journal distributed over a tree of included files.
type Layout struct {
	Root  string            // relative path of the root file
	Files map[string]string // relative path -> content
	Order []string          // file paths in creation order (root first)
}

// Write materialises the layout under dir and returns the root path.
func (l *Layout) Write(dir string) string {
	for p, c := range l.Files {
		full := filepath.Join(dir, p)
		os.MkdirAll(filepath.Dir(full), 0o755)
		os.WriteFile(full, []byte(c), 0o644)
	}
	return filepath.Join(dir, l.Root)
}

// SplitTree distributes the directives (in the given order) over nfiles files that
// include each other as a random tree, with sub-directories and ../ paths.
func SplitTree(rng *rand.Rand, j *Journal, dirs []Dir, nfiles int) *Layout {
	if nfiles < 1 {
		nfiles = 1
	}
	paths := make([]string, nfiles)
	parent := make([]int, nfiles)
	paths[0] = "main.knut"
	for i := 1; i < nfiles; i++ {
		parent[i] = rng.Intn(i)
		pdir := filepath.Dir(paths[parent[i]])
		switch rng.Intn(4) {
		case 0:
			paths[i] = filepath.Join(pdir, fmt.Sprintf("f%d.knut", i))
		case 1:
			paths[i] = filepath.Join(pdir, fmt.Sprintf("sub%d", i), fmt.Sprintf("f%d.knut", i))
		case 2:
			paths[i] = filepath.Join(pdir, fmt.Sprintf("a%d", i), "deep", fmt.Sprintf("f%d.knut", i))
		default:
			// a sibling directory reached through ../ (only if the parent is not at the top)
			if pdir != "." {
				paths[i] = filepath.Join(filepath.Dir(pdir), fmt.Sprintf("sib%d", i), fmt.Sprintf("f%d.knut", i))
			} else {
				paths[i] = filepath.Join(pdir, fmt.Sprintf("s%d", i), fmt.Sprintf("f%d.knut", i))
			}
		}
	}
	bodies := make([][]string, nfiles)
	for _, d := range dirs {
		k := rng.Intn(nfiles)
		bodies[k] = append(bodies[k], j.RenderDir(d))
	}
	for i := 1; i < nfiles; i++ {
		rel, _ := filepath.Rel(filepath.Dir(paths[parent[i]]), paths[i])
		if rng.Intn(2) == 0 && !strings.HasPrefix(rel, ".") {
			rel = "./" + rel
		}
		inc := fmt.Sprintf("include \"%s\"\n", rel)
		p := parent[i]
		pos := rng.Intn(len(bodies[p]) + 1)
		bodies[p] = append(bodies[p][:pos:pos], append([]string{inc}, bodies[p][pos:]...)...)
	}
	l := &Layout{Root: paths[0], Files: map[string]string{}, Order: paths}
	for i, p := range paths {
		l.Files[p] = strings.Join(bodies[i], "\n")
	}
	return l
}

// WideTree builds a root that includes n1 files, each of which includes n2 leaves with one
// transaction each (many file tasks in flight at once).
func WideTree(n1, n2 int) (*Layout, int) {
	l := &Layout{Root: "main.knut", Files: map[string]string{}, Order: []string{"main.knut"}}
	var root strings.Builder
	root.WriteString("2020-01-01 open Assets:A\n2020-01-01 open Equity:Equity\n\n")
	ntrx := 0
	for a := 0; a < n1; a++ {
		mid := fmt.Sprintf("y%d/index.knut", a)
		fmt.Fprintf(&root, "include \"%s\"\n", mid)
		var mb strings.Builder
		for b := 0; b < n2; b++ {
			leaf := fmt.Sprintf("y%d/m%d.knut", a, b)
			fmt.Fprintf(&mb, "include \"m%d.knut\"\n", b)
			l.Files[leaf] = fmt.Sprintf("2020-02-%02d \"leaf %d %d\"\nEquity:Equity Assets:A %d CHF\n", 1+b%28, a, b, 1+a+b)
			l.Order = append(l.Order, leaf)
			ntrx++
		}
		l.Files[mid] = mb.String()
		l.Order = append(l.Order, mid)
	}
	l.Files["main.knut"] = root.String()
	return l, ntrx
}

// DeepTree builds a complete binary include tree of the given depth.
func DeepTree(depth int) (*Layout, int) {
	l := &Layout{Root: "main.knut", Files: map[string]string{}, Order: []string{}}
	ntrx := 0
	var build func(path string, d int, idx int)
	build = func(path string, d int, idx int) {
		var b strings.Builder
		if d == 0 {
			b.WriteString("2020-01-01 open Assets:A\n2020-01-01 open Equity:Equity\n\n")
		}
		if d < depth {
			for k := 0; k < 2; k++ {
				child := fmt.Sprintf("n%d_%d.knut", d+1, idx*2+k)
				fmt.Fprintf(&b, "include \"%s\"\n", child)
				build(child, d+1, idx*2+k)
			}
		} else {
			fmt.Fprintf(&b, "2020-03-%02d \"leaf %d\"\nEquity:Equity Assets:A 1 CHF\n", 1+idx%28, idx)
			ntrx++
		}
		l.Files[path] = b.String()
		l.Order = append(l.Order, path)
	}
	build("main.knut", 0, 0)
	return l, ntrx
}
