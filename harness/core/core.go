// Package core holds the plumbing shared by every check: building knut from
// /repo's working tree, running commands, running TLC in a scratch directory,
// writing evidence, and the one verdict path (reproduce -> known finding? -> VIOLATION).
//
// The harness transports and parses; TLC decides.
package core

import (
	"bytes"
	"context"
	"crypto/sha256"
	"encoding/hex"
	"encoding/json"
	"errors"
	"fmt"
	"os"
	"os/exec"
	"path/filepath"
	"regexp"
	"runtime"
	"sort"
	"strconv"
	"strings"
	"sync"
	"syscall"
	"time"
)

const VerifRoot = "/verif"

// RepoRoot is the tree under verification: /repo, unless VERIF_REPO names a scratch worktree
// (used only by tools/seedtest.sh to try a seeded change without touching /repo).
var RepoRoot = func() string {
	if r := os.Getenv("VERIF_REPO"); r != "" {
		return r
	}
	return "/repo"
}()

// Ctx is the state of one check run.
type Ctx struct {
	Prop  string
	Tier  string // quick | thorough
	Seed  int64
	Work  string // scratch dir (removed at exit)
	Build string // where binaries for this property live
	Start time.Time
	// ReproRounds is how often a rejected case is re-executed before it counts as not reproduced (default 5);
	// checks whose failures depend on the goroutine schedule raise it
	ReproRounds int

	mu         sync.Mutex
	Ev         Evidence
	violations []Violation
	infra      []string
	built      map[string]string
	Why        map[int]string // id -> the trace spec's reason for rejecting it
}

type Evidence struct {
	PropertyID  string         `json:"property_id"`
	Tier        string         `json:"tier"`
	Seed        int64          `json:"seed"`
	Level       string         `json:"level"`
	Coverage    map[string]any `json:"coverage"`
	Assumptions []string       `json:"assumptions"`
	WallS       float64        `json:"wall_s"`
	Violations  int            `json:"violations"`
}

type Violation struct {
	Sig    string // narrow classification, matched against KNOWN_FINDINGS.json
	What   string
	Replay string // directory with inputs + observed/expected
}

func Thorough(c *Ctx) bool { return c.Tier == "thorough" }

// Pick returns q for quick tier, t for thorough.
func (c *Ctx) Pick(q, t int) int {
	if c.Tier == "thorough" {
		return t
	}
	return q
}

func NewCtx(prop, tier string) *Ctx {
	seed := int64(1)
	if s := os.Getenv("VERIF_SEED"); s != "" {
		if v, err := strconv.ParseInt(s, 10, 64); err == nil {
			seed = v
		}
	}
	if t := os.Getenv("VERIF_TIER"); t != "" && tier == "" {
		tier = t
	}
	if tier == "" {
		tier = "quick"
	}
	work := filepath.Join(VerifRoot, ".work", fmt.Sprintf("%s-%d", prop, os.Getpid()))
	os.RemoveAll(work)
	must(os.MkdirAll(work, 0o755))
	build := filepath.Join(VerifRoot, ".build", prop)
	if b := os.Getenv("VERIF_BUILD"); b != "" {
		build = b
	}
	must(os.MkdirAll(build, 0o755))
	c := &Ctx{Prop: prop, Tier: tier, Seed: seed, Work: work, Build: build, Start: time.Now(), built: map[string]string{}}
	c.Ev = Evidence{PropertyID: prop, Tier: tier, Seed: seed, Level: "model_checking", Coverage: map[string]any{}, Assumptions: []string{"verdicts come only from re-executed real-code behaviour; model-only counterexamples and infrastructure failures exit 2"}}
	return c
}

func must(err error) {
	if err != nil {
		panic(err)
	}
}

// ---------------------------------------------------------------- counters

func (c *Ctx) Add(key string, n int) {
	c.mu.Lock()
	defer c.mu.Unlock()
	cur, _ := c.Ev.Coverage[key].(int)
	c.Ev.Coverage[key] = cur + n
}

func (c *Ctx) Set(key string, v any) {
	c.mu.Lock()
	defer c.mu.Unlock()
	c.Ev.Coverage[key] = v
}

func (c *Ctx) Sample(v any) {
	c.mu.Lock()
	defer c.mu.Unlock()
	s, _ := c.Ev.Coverage["samples"].([]any)
	if len(s) < 6 {
		c.Ev.Coverage["samples"] = append(s, v)
	}
}

func (c *Ctx) Assume(s string) {
	c.mu.Lock()
	defer c.mu.Unlock()
	for _, a := range c.Ev.Assumptions {
		if a == s {
			return
		}
	}
	c.Ev.Assumptions = append(c.Ev.Assumptions, s)
}

func (c *Ctx) Trusted(s ...string) {
	c.mu.Lock()
	defer c.mu.Unlock()
	tb, _ := c.Ev.Coverage["trusted_base"].([]string)
	c.Ev.Coverage["trusted_base"] = append(tb, s...)
}

// Infra records an infrastructure failure (exit 2, never a violation).
func (c *Ctx) Infra(format string, a ...any) {
	c.mu.Lock()
	defer c.mu.Unlock()
	msg := fmt.Sprintf(format, a...)
	c.infra = append(c.infra, msg)
	fmt.Fprintln(os.Stderr, "INFRA:", msg)
}

// Violate records a reproduced violation.
func (c *Ctx) Violate(sig, what string, files map[string]string) {
	c.mu.Lock()
	n := len(c.violations) + 1
	c.mu.Unlock()
	dir := filepath.Join(VerifRoot, "replay", c.Prop, fmt.Sprintf("%s-%d-%d", c.Tier, c.Seed, n))
	os.RemoveAll(dir)
	os.MkdirAll(dir, 0o755)
	for name, content := range files {
		p := filepath.Join(dir, name)
		os.MkdirAll(filepath.Dir(p), 0o755)
		os.WriteFile(p, []byte(content), 0o644)
	}
	os.WriteFile(filepath.Join(dir, "WHAT.txt"), []byte(sig+"\n"+what+"\n"), 0o644)
	c.mu.Lock()
	c.violations = append(c.violations, Violation{Sig: sig, What: what, Replay: dir})
	c.mu.Unlock()
}

// noteMore counts further reproduced violations of an already reported signature.
func (c *Ctx) noteMore(sig string) {
	c.mu.Lock()
	defer c.mu.Unlock()
	m, _ := c.Ev.Coverage["more_violations_by_signature"].(map[string]int)
	if m == nil {
		m = map[string]int{}
	}
	m[sig]++
	c.Ev.Coverage["more_violations_by_signature"] = m
}

func (c *Ctx) NumViolations() int {
	c.mu.Lock()
	defer c.mu.Unlock()
	return len(c.violations)
}

// ---------------------------------------------------------------- known findings

type Finding struct {
	Property string `json:"property"`
	Key      string `json:"key"`
	Status   string `json:"status"` // open | fixed
	Sig      string `json:"signature"`
	What     string `json:"what"`
	Commit   string `json:"commit,omitempty"`
}

func loadFindings() []Finding {
	b, err := os.ReadFile(filepath.Join(VerifRoot, "KNOWN_FINDINGS.json"))
	if err != nil {
		return nil
	}
	var fs []Finding
	if err := json.Unmarshal(b, &fs); err != nil {
		fmt.Fprintln(os.Stderr, "KNOWN_FINDINGS.json unreadable:", err)
		return nil
	}
	return fs
}

// Finish writes the evidence file, prints verdict lines and returns the exit code.
func (c *Ctx) Finish() int {
	defer os.RemoveAll(c.Work)
	findings := loadFindings()
	known := map[string]Finding{}
	for _, f := range findings {
		if f.Property == c.Prop && f.Status == "open" {
			known[f.Sig] = f
		}
	}
	printedKnown := map[string]bool{}
	unknown := 0
	for _, v := range c.violations {
		if f, ok := known[v.Sig]; ok {
			if !printedKnown[v.Sig] {
				fmt.Printf("KNOWN-FINDING: property=%s %s (%s) e.g. %s\n", c.Prop, f.Key, f.What, v.Replay)
				printedKnown[v.Sig] = true
			}
			continue
		}
		unknown++
		fmt.Printf("VIOLATION property=%s replay=%s\n", c.Prop, v.Replay)
		fmt.Printf("  what: [%s] %s\n", v.Sig, firstLine(v.What))
	}
	c.Ev.WallS = time.Since(c.Start).Seconds()
	c.Ev.Violations = unknown
	c.Ev.Coverage["known_findings_seen"] = len(printedKnown)
	if _, ok := c.Ev.Coverage["samples"]; !ok {
		c.Ev.Coverage["samples"] = []any{"(no sample recorded)"}
	}
	if len(c.infra) > 0 {
		c.Ev.Coverage["infrastructure_errors"] = c.infra
	}
	b, _ := json.MarshalIndent(c.Ev, "", " ")
	evdir := filepath.Join(VerifRoot, "evidence")
	if os.Getenv("VERIF_REPO") != "" {
		evdir = filepath.Join(VerifRoot, ".work", "evidence-scratch") // a scratch worktree was checked, not /repo
	}
	os.MkdirAll(evdir, 0o755)
	os.WriteFile(filepath.Join(evdir, c.Prop+".json"), b, 0o644)
	if unknown > 0 {
		return 1
	}
	if len(c.infra) > 0 {
		fmt.Fprintf(os.Stderr, "%s: inconclusive, %d infrastructure error(s)\n", c.Prop, len(c.infra))
		return 2
	}
	fmt.Printf("OK property=%s tier=%s seed=%d wall=%.1fs\n", c.Prop, c.Tier, c.Seed, c.Ev.WallS)
	return 0
}

func firstLine(s string) string {
	if i := strings.IndexByte(s, '\n'); i >= 0 {
		return s[:i]
	}
	return s
}

// ---------------------------------------------------------------- building knut

func goEnv() []string {
	env := os.Environ()
	env = append(env, "GOFLAGS=-mod=mod", "GOPROXY=off", "GOSUMDB=off", "GOTOOLCHAIN=local", "CGO_ENABLED=1")
	return env
}

// Knut builds (once per run) the knut binary from /repo's working tree.
// variant: "" (plain), "verif" (-tags verif), "race" (-tags verif -race).
func (c *Ctx) Knut(variant string) string {
	c.mu.Lock()
	defer c.mu.Unlock()
	if p, ok := c.built[variant]; ok {
		return p
	}
	out := filepath.Join(c.Build, "knut"+map[string]string{"": "", "verif": "-verif", "race": "-race"}[variant])
	args := []string{"build", "-o", out}
	switch variant {
	case "verif":
		args = append(args, "-tags", "verif")
	case "race":
		args = append(args, "-tags", "verif", "-race")
	}
	args = append(args, ".")
	cmd := exec.Command("go", args...)
	cmd.Dir = RepoRoot
	cmd.Env = goEnv()
	if b, err := cmd.CombinedOutput(); err != nil {
		fmt.Fprintf(os.Stderr, "build failed (%s): %v\n%s\n", variant, err, b)
		c.infra = append(c.infra, "build of knut failed: "+variant)
		os.Exit(2)
	}
	c.built[variant] = out
	return out
}

// ---------------------------------------------------------------- running commands

type RunResult struct {
	Exit     int
	Stdout   string
	Stderr   string
	TimedOut bool
	Wall     time.Duration
}

type RunOpts struct {
	Dir     string
	Env     []string
	Stdin   string
	Timeout time.Duration
}

func Run(opts RunOpts, name string, args ...string) RunResult {
	if opts.Timeout == 0 {
		opts.Timeout = 60 * time.Second
	}
	ctx, cancel := context.WithTimeout(context.Background(), opts.Timeout)
	defer cancel()
	cmd := exec.CommandContext(ctx, name, args...)
	cmd.Dir = opts.Dir
	cmd.Env = append(os.Environ(), opts.Env...)
	cmd.SysProcAttr = &syscall.SysProcAttr{Setpgid: true}
	cmd.Cancel = func() error { return syscall.Kill(-cmd.Process.Pid, syscall.SIGKILL) }
	cmd.WaitDelay = 2 * time.Second
	var so, se bytes.Buffer
	cmd.Stdout, cmd.Stderr = &so, &se
	if opts.Stdin != "" {
		cmd.Stdin = strings.NewReader(opts.Stdin)
	}
	t0 := time.Now()
	err := cmd.Run()
	res := RunResult{Stdout: so.String(), Stderr: se.String(), Wall: time.Since(t0)}
	if ctx.Err() == context.DeadlineExceeded {
		res.TimedOut = true
		res.Exit = -1
		return res
	}
	if err != nil {
		var ee *exec.ExitError
		if errors.As(err, &ee) {
			res.Exit = ee.ExitCode()
		} else {
			res.Exit = -2
			res.Stderr += "\nexec error: " + err.Error()
		}
	}
	return res
}

// Parallel runs f(i) for i in 0..n-1 on all cores.
func Parallel(n int, f func(i int)) {
	workers := runtime.NumCPU()
	if workers > n {
		workers = n
	}
	if workers < 1 {
		workers = 1
	}
	var wg sync.WaitGroup
	ch := make(chan int)
	for w := 0; w < workers; w++ {
		wg.Add(1)
		go func() {
			defer wg.Done()
			for i := range ch {
				f(i)
			}
		}()
	}
	for i := 0; i < n; i++ {
		ch <- i
	}
	close(ch)
	wg.Wait()
}

func Sha(s string) string {
	h := sha256.Sum256([]byte(s))
	return hex.EncodeToString(h[:8])
}

// ---------------------------------------------------------------- TLC

type TLCOpts struct {
	Spec     string            // module name (file Spec.tla in /verif/spec)
	Cfg      string            // cfg file name in /verif/spec
	Files    map[string][]byte // extra files to place in the run dir (e.g. cases.ndjson)
	Workers  int
	Simulate string // e.g. "num=100" -> -simulate num=100
	Depth    int
	Seed     int64
	Timeout  time.Duration
	DFS      bool // depth-first queue (StateDeque) for branching trace specs
	Extra    []string
	Heap     string // e.g. "4g"
}

type TLCResult struct {
	Out       string
	Generated int
	Distinct  int
	OK        bool     // finished with "No error has been found" / simulation finished
	Violated  string   // name of the violated invariant/property, if any
	ErrorText string   // first "Error:" block
	Printed   []string // lines printed by Print/PrintT (raw)
	Dir       string
	CoverageZ []string // (with -coverage) actions never taken
	WallS     float64
	TimedOut  bool
}

var (
	reStates = regexp.MustCompile(`(\d+) states generated, (\d+) distinct states found`)
	reInv    = regexp.MustCompile(`Error: Invariant (\S+) is violated`)
	reProp   = regexp.MustCompile(`Error: (?:Action|Temporal) propert(?:y|ies) (\S+)?`)
)

var tlcSeq int
var tlcMu sync.Mutex

// TLC runs TLC on a copy of /verif/spec inside the scratch dir.
func (c *Ctx) TLC(o TLCOpts) *TLCResult {
	tlcMu.Lock()
	tlcSeq++
	n := tlcSeq
	tlcMu.Unlock()
	dir := filepath.Join(c.Work, fmt.Sprintf("tlc%d", n))
	must(os.MkdirAll(dir, 0o755))
	// copy spec dir
	ents, _ := os.ReadDir(filepath.Join(VerifRoot, "spec"))
	for _, e := range ents {
		if e.IsDir() {
			continue
		}
		b, err := os.ReadFile(filepath.Join(VerifRoot, "spec", e.Name()))
		if err == nil {
			os.WriteFile(filepath.Join(dir, e.Name()), b, 0o644)
		}
	}
	for name, b := range o.Files {
		must(os.WriteFile(filepath.Join(dir, name), b, 0o644))
	}
	if o.Workers == 0 {
		o.Workers = 4
	}
	if o.Timeout == 0 {
		o.Timeout = 10 * time.Minute
	}
	if o.Heap == "" {
		o.Heap = "4g"
	}
	jtmp := filepath.Join(dir, "jtmp") // TLC/SANY scratch files stay inside the work directory
	os.MkdirAll(jtmp, 0o755)
	args := []string{"-XX:+UseParallelGC", "-Xmx" + o.Heap, "-Xss256m", "-Djava.io.tmpdir=" + jtmp}
	if o.DFS {
		args = append(args, "-Dtlc2.tool.queue.IStateQueue=StateDeque")
	}
	args = append(args, "-cp", "/opt/veriftools/tla/tla2tools.jar:/opt/veriftools/tla/CommunityModules-deps.jar", "tlc2.TLC",
		"-metadir", filepath.Join(dir, "meta"), "-workers", strconv.Itoa(o.Workers), "-noGenerateSpecTE")
	if o.Simulate != "" {
		args = append(args, "-simulate", o.Simulate)
		if o.Depth > 0 {
			args = append(args, "-depth", strconv.Itoa(o.Depth))
		}
		args = append(args, "-seed", strconv.FormatInt(o.Seed, 10))
	}
	args = append(args, o.Extra...)
	args = append(args, "-config", o.Cfg, o.Spec+".tla")
	t0 := time.Now()
	r := Run(RunOpts{Dir: dir, Timeout: o.Timeout}, "java", args...)
	res := &TLCResult{Out: r.Stdout + r.Stderr, Dir: dir, WallS: time.Since(t0).Seconds(), TimedOut: r.TimedOut}
	if m := reStates.FindAllStringSubmatch(res.Out, -1); len(m) > 0 {
		last := m[len(m)-1]
		res.Generated, _ = strconv.Atoi(last[1])
		res.Distinct, _ = strconv.Atoi(last[2])
	}
	if m := reInv.FindStringSubmatch(res.Out); m != nil {
		res.Violated = m[1]
	} else if m := reProp.FindStringSubmatch(res.Out); m != nil {
		res.Violated = "property " + m[1]
	} else if strings.Contains(res.Out, "Error: Deadlock reached") {
		res.Violated = "Deadlock"
	}
	if i := strings.Index(res.Out, "Error:"); i >= 0 {
		e := res.Out[i:]
		if len(e) > 1500 {
			e = e[:1500]
		}
		res.ErrorText = e
	}
	res.OK = !r.TimedOut && res.ErrorText == "" &&
		(strings.Contains(res.Out, "No error has been found") || (o.Simulate != "" && (r.Exit == 0 || strings.Contains(res.Out, "Finished in"))))
	for _, ln := range strings.Split(r.Stdout, "\n") {
		if strings.HasPrefix(ln, "\"") || strings.HasPrefix(ln, "<<") {
			res.Printed = append(res.Printed, ln)
		}
	}
	return res
}

// Unquote turns a TLA+ printed string literal ("...") into its content.
func Unquote(s string) string {
	s = strings.TrimSpace(s)
	if len(s) >= 2 && s[0] == '"' && s[len(s)-1] == '"' {
		s = s[1 : len(s)-1]
	}
	s = strings.ReplaceAll(s, `\"`, `"`)
	s = strings.ReplaceAll(s, `\\`, `\`)
	return s
}

// MC runs an exhaustive model-checking config; any failure is an infrastructure error
// (a model-level counterexample is a lead, not a verdict) unless wantViolation is set.
func (c *Ctx) MC(spec, cfg string, workers int, timeout time.Duration, extra ...string) *TLCResult {
	r := c.TLC(TLCOpts{Spec: spec, Cfg: cfg, Workers: workers, Timeout: timeout, Extra: extra, Heap: "12g"})
	if !r.OK {
		c.Infra("model checking %s/%s did not pass: violated=%q timedOut=%v\n%s", spec, cfg, r.Violated, r.TimedOut, tail(r.Out, 3000))
		return r
	}
	c.Add("states", r.Distinct)
	c.Add("transitions", r.Generated)
	c.mu.Lock()
	runs, _ := c.Ev.Coverage["model_runs"].([]string)
	c.Ev.Coverage["model_runs"] = append(runs, fmt.Sprintf("%s/%s: %d generated, %d distinct, %.1fs", spec, cfg, r.Generated, r.Distinct, r.WallS))
	c.mu.Unlock()
	return r
}

func tail(s string, n int) string {
	if len(s) > n {
		return s[len(s)-n:]
	}
	return s
}

// ---------------------------------------------------------------- judging functional cases

// Judge hands cases (each a JSON object with a unique integer "id") to the trace
// spec `spec` (which must define Cases == ndJsonDeserialize("cases.ndjson") and print
// "FAILED <json array of ids>" when done), sharded over several TLC processes.
// It returns the ids TLC rejected. TLC failure -> infra error, returns nil,false.
func (c *Ctx) Judge(spec, cfg string, cases []map[string]any, shards int) (failed []int, ok bool) {
	if len(cases) == 0 {
		return nil, true
	}
	if shards < 1 {
		shards = 1
	}
	if shards > len(cases) {
		shards = len(cases)
	}
	type out struct {
		failed []int
		ok     bool
		res    *TLCResult
	}
	outs := make([]out, shards)
	var wg sync.WaitGroup
	for s := 0; s < shards; s++ {
		wg.Add(1)
		go func(s int) {
			defer wg.Done()
			var buf bytes.Buffer
			n := 0
			for i := s; i < len(cases); i += shards {
				b, err := json.Marshal(cases[i])
				must(err)
				buf.Write(b)
				buf.WriteByte('\n')
				n++
			}
			r := c.TLC(TLCOpts{Spec: spec, Cfg: cfg, Workers: 1, Files: map[string][]byte{"cases.ndjson": buf.Bytes()}, Timeout: 20 * time.Minute, Heap: "3g"})
			o := out{res: r}
			found := false
			for _, ln := range r.Printed {
				u := Unquote(ln)
				if strings.HasPrefix(u, "FAILED ") {
					found = true
					var recs []struct {
						ID  int    `json:"id"`
						Why string `json:"why"`
					}
					if err := json.Unmarshal([]byte(strings.TrimPrefix(u, "FAILED ")), &recs); err != nil {
						c.Infra("cannot parse FAILED line %q: %v", u, err)
					} else {
						for _, rc := range recs {
							o.failed = append(o.failed, rc.ID)
							c.mu.Lock()
							if c.Why == nil {
								c.Why = map[int]string{}
							}
							c.Why[rc.ID] = rc.Why
							c.mu.Unlock()
						}
						o.ok = true
					}
				}
			}
			if !found || !r.OK || r.Distinct != n+1 {
				o.ok = false
				c.Infra("judge %s shard %d: TLC did not complete (ok=%v distinct=%d want=%d)\n%s", spec, s, r.OK, r.Distinct, n+1, r.ErrorText)
			}
			outs[s] = o
		}(s)
	}
	wg.Wait()
	ok = true
	for _, o := range outs {
		if !o.ok {
			ok = false
		}
		failed = append(failed, o.failed...)
		if o.res != nil {
			c.Add("judge_states", o.res.Distinct)
		}
	}
	sort.Ints(failed)
	if ok {
		c.Add("traces_validated_against_impl", len(cases))
	}
	return failed, ok
}

func JSON(v any) string {
	b, _ := json.MarshalIndent(v, "", " ")
	return string(b)
}

// JudgeAndReport judges the cases with TLC; every rejected case is re-executed on the
// real code (rerun) and re-judged alone; only a case that is rejected again becomes a
// violation (sig classifies it for KNOWN_FINDINGS matching). Unreproduced -> infra.
func (c *Ctx) JudgeAndReport(spec, cfg string, cases []map[string]any, shards int,
	rerun func(old map[string]any) map[string]any, sigOf func(cs map[string]any) (sig, what string)) {
	failed, ok := c.Judge(spec, cfg, cases, shards)
	if !ok {
		return
	}
	byID := map[int]map[string]any{}
	for _, cs := range cases {
		byID[toInt(cs["id"])] = cs
	}
	c.Add("rejected_first_pass", len(failed))
	if len(failed) == 0 {
		return
	}
	// re-execute (at most maxRepro of) the rejected cases and judge them again in one batch;
	// cases that pass on re-execution are retried (schedule / map-order dependent failures)
	const maxRepro = 120
	pending := failed
	if len(pending) > maxRepro {
		c.Set("rejected_not_reexecuted", len(pending)-maxRepro)
		pending = pending[:maxRepro]
	}
	confirmed := map[int]map[string]any{}
	rounds := 5
	if c.ReproRounds > 0 {
		rounds = c.ReproRounds
	}
	for round := 0; round < rounds && len(pending) > 0; round++ {
		var olds []map[string]any
		for _, id := range pending {
			old := byID[id]
			if old == nil {
				c.Infra("judge returned unknown id %d", id)
				continue
			}
			olds = append(olds, old)
		}
		batch := make([]map[string]any, len(olds))
		Parallel(len(olds), func(k int) {
			batch[k] = olds[k]
			if rerun != nil {
				batch[k] = rerun(olds[k])
			}
		})
		f2, ok2 := c.Judge(spec, cfg, batch, shards)
		if !ok2 {
			return
		}
		rej := map[int]bool{}
		for _, id := range f2 {
			rej[id] = true
		}
		var next []int
		for _, cs := range batch {
			id := toInt(cs["id"])
			if rej[id] {
				confirmed[id] = cs
			} else {
				next = append(next, id)
			}
		}
		pending = next
		if rerun == nil {
			break
		}
	}
	for _, id := range pending {
		c.Infra("case %d rejected once but accepted on %d re-executions (not reproduced)", id, rounds)
	}
	seenSig := map[string]int{}
	var ids []int
	for id := range confirmed {
		ids = append(ids, id)
	}
	sort.Ints(ids)
	for _, id := range ids {
		again := confirmed[id]
		again["why"] = c.Why[id]
		sig, what := sigOf(again)
		what = "rejected by " + spec + ": " + c.Why[id] + "\n" + what
		seenSig[sig]++
		if seenSig[sig] <= 3 {
			c.Violate(sig, what, map[string]string{"case.json": JSON(again), "spec.txt": spec + " / " + cfg})
		} else {
			c.noteMore(sig)
		}
	}
}

func toInt(v any) int {
	switch x := v.(type) {
	case int:
		return x
	case int64:
		return int(x)
	case float64:
		return int(x)
	}
	return -1
}

// tierCfg returns "<base>_quick.cfg" or "<base>_thorough.cfg".
func (c *Ctx) TierCfg(base string) string { return base + "_" + c.Tier + ".cfg" }

// Apalache runs `apalache-mc check <args> <module>` on a copy of spec/apalache and reports
// whether the obligation was discharged (EXITCODE: OK).
func (c *Ctx) Apalache(module string, args ...string) bool {
	tlcMu.Lock()
	tlcSeq++
	n := tlcSeq
	tlcMu.Unlock()
	dir := filepath.Join(c.Work, fmt.Sprintf("apa%d", n))
	must(os.MkdirAll(dir, 0o755))
	ents, _ := os.ReadDir(filepath.Join(VerifRoot, "spec", "apalache"))
	for _, e := range ents {
		b, err := os.ReadFile(filepath.Join(VerifRoot, "spec", "apalache", e.Name()))
		if err == nil {
			os.WriteFile(filepath.Join(dir, e.Name()), b, 0o644)
		}
	}
	full := append(append([]string{"check"}, args...), module)
	r := Run(RunOpts{Dir: dir, Timeout: 10 * time.Minute}, "apalache-mc", full...)
	ok := strings.Contains(r.Stdout+r.Stderr, "EXITCODE: OK")
	c.Add("obligations", 1)
	if ok {
		c.Add("discharged", 1)
	}
	return ok
}
