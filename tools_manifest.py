#!/usr/bin/env python3
"""Regenerates MANIFEST.json from manifest_src.json (claims) + properties.jsonl (ids)."""
import json, sys
src = json.load(open('/verif/manifest_src.json'))
ids = [json.loads(l)['id'] for l in open('/verif/properties.jsonl')]
checks = []
for pid in ids:
    if pid in src['claims']:
        cl = src['claims'][pid]
        checks.append({
            "property_id": pid,
            "quick_cmd": f"./check {pid} quick",
            "thorough_cmd": f"./check {pid} thorough",
            "evidence_file": f"/verif/evidence/{pid}.json",
            "replay_cmd_template": "cat {path}/WHAT.txt {path}/case.json",
            "engine": "kv+tlc",
            "level_claimed": {"category": cl["category"], "text": cl["text"], "design_ref": cl.get("design_ref", "DESIGN.md §6 " + pid)},
            "level_note": cl["note"],
            "technique": cl["technique"],
        })
na = [{"property_id": p, "reason": src['not_applicable'].get(p, "check not built yet in this round (planned in DESIGN.md §6)")} for p in ids if p not in src['claims']]
m = {
 "version": 1,
 "setup_cmd": "./setup.sh",
 "hooks": src["hooks"],
 "engines": [{"name": "kv+tlc", "path": "/verif/harness + /verif/spec", "serves_properties": sorted(src['claims']), "kind_free_text": "Go harness (transport, real-code drivers) + TLA+ specifications checked/judged by TLC"}],
 "checks": checks,
 "notes": src.get("notes", ""),
 "not_applicable": na,
}
json.dump(m, open('/verif/MANIFEST.json', 'w'), indent=1)
print("claimed:", len(checks), "not claimed:", len(na))
