#!/bin/bash
# Offline setup: build the harness once (warms the Go build cache). Checks rebuild it anyway.
set -e
cd /verif
export GOFLAGS=-mod=mod GOPROXY=off GOSUMDB=off GOTOOLCHAIN=local
mkdir -p .build/setup .work evidence
cp /repo/go.sum harness/go.sum
( cd harness && go build -o ../.build/setup/kv ./cmd/kv )
( cd /repo && go build -o /verif/.build/setup/knut . )
echo setup ok
