#!/bin/bash
# usage: ./runall.sh [tier] [seed]  -> runs every claimed check sequentially, prints one line each
tier=${1:-quick}; export VERIF_SEED=${2:-1}
worst=0
for p in $(python3 -c "import json;print(' '.join(c['property_id'] for c in json.load(open('/verif/MANIFEST.json'))['checks']))"); do
  s=$(date +%s); out=$(./check $p $tier 2>&1); rc=$?; e=$(date +%s)
  echo "$p rc=$rc $((e-s))s $(echo "$out" | grep -E '^(VIOLATION|KNOWN-FINDING|OK)' | head -2 | cut -c1-120 | tr '\n' ' ')"
  if [ $rc -ne 0 ]; then
    echo "$out" | grep -E "INFRA|what:" | head -5 | cut -c1-300
    [ $rc -gt $worst ] && worst=$rc
  fi
done
exit $worst
