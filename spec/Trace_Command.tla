--------------------------- MODULE Trace_Command ---------------------------
(* Judges real runs of the scenarios enumerated by Command.tla.                  *)
(* case = [id, mustFail, report, exit, timedOut, panicked, oom, stdoutEmpty,     *)
(*         stderrEmpty]                                                          *)
EXTENDS Integers, Sequences, Json, TLC
Cases == ndJsonDeserialize("cases.ndjson")
VARIABLES i, failed
Why(c) ==
  IF c.timedOut THEN "does-not-terminate"
  ELSE IF c.oom THEN "exhausts-memory-or-threads"
  ELSE IF c.panicked THEN "panic"
  ELSE IF c.exit # 0 /\ c.stderrEmpty THEN "failure-without-diagnostic"
  ELSE IF c.mustFail /\ c.exit = 0 THEN "error-in-a-loaded-file-did-not-fail-the-command"
  ELSE IF c.exit # 0 /\ c.report /\ ~c.stdoutEmpty THEN "failing-report-command-wrote-to-stdout"
  ELSE "ok"
Init == i = 1 /\ failed = << >>
Next == /\ i <= Len(Cases)
        /\ i' = i + 1
        /\ failed' = LET w == Why(Cases[i]) IN IF w = "ok" THEN failed ELSE Append(failed, [id |-> Cases[i].id, why |-> w])
Spec == Init /\ [][Next]_<<i, failed>>
Report == i <= Len(Cases) \/ PrintT("FAILED " \o ToJson(failed))
=============================================================================
