---------------------------- MODULE Trace_Table ----------------------------
(* Judges tables recorded from the real table.TextRenderer / CSVRenderer and    *)
(* from `knut balance` (text and --csv of the same report).                     *)
(* case = [id, lines : Seq([w, seps]), cells : Seq([sg, ip, fp, k, digits, out, csv])] *)
EXTENDS Table, Json, TLC
Cases == ndJsonDeserialize("cases.ndjson")
VARIABLES i, failed
Why(c) ==
  IF ~Rectangular(c.lines) THEN "not-rectangular"
  ELSE IF \E n \in 1..Len(c.cells) : (c.cells[n].out = << >>) # (c.cells[n].sg = 0) THEN "blank-iff-zero"
  ELSE IF \E n \in 1..Len(c.cells) : c.cells[n].out # Fmt(c.cells[n]) THEN "cell-not-rounded-half-away-or-misgrouped"
  ELSE IF \E n \in 1..Len(c.cells) : ~CellOK(c.cells[n]) THEN "cell-clauses"
  ELSE IF \E n \in 1..Len(c.cells) : ~CsvOK(c.cells[n]) THEN "csv-not-exact"
  ELSE "ok"
Init == i = 1 /\ failed = << >>
Next == /\ i <= Len(Cases)
        /\ i' = i + 1
        /\ failed' = LET w == Why(Cases[i]) IN IF w = "ok" THEN failed ELSE Append(failed, [id |-> Cases[i].id, why |-> w])
Spec == Init /\ [][Next]_<<i, failed>>
Report == i <= Len(Cases) \/ PrintT("FAILED " \o ToJson(failed))
=============================================================================
