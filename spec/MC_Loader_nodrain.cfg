SPECIFICATION Spec
CONSTANTS
  NFiles = 3
  MaxFail = 2
  Drain = FALSE
INVARIANTS NoLossNoDup SuccessIffClean ErrorIsReal AddedWereLoaded
PROPERTY Termination
