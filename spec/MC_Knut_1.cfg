SPECIFICATION Spec
CONSTANTS
  CaseId = 1
INVARIANTS ScheduleIndependent StageOrder
PROPERTY Terminates
