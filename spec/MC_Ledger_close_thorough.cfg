SPECIFICATION Spec
CONSTANTS
  MaxLen = 3
  Family = "close"
INVARIANTS AllInv
CHECK_DEADLOCK FALSE
