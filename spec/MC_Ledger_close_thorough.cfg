SPECIFICATION Spec
CONSTANTS
  MaxLen = 3
  Emit = FALSE
  Family = "close"
INVARIANTS AllInv
CHECK_DEADLOCK FALSE
