----------------------------- MODULE MC_Accrual -----------------------------
(* C10 on the model: for every transaction (1-2 bookings over all account type   *)
(* pairs, positive/negative/zero amounts at scale 100), every accrual interval    *)
(* and every window inside a range straddling month and quarter ends, the        *)
(* expansion satisfies the four clauses of the property.  The code-shaped         *)
(* variant that drops equity legs (defect D2, repaired) is checked to violate     *)
(* them, which shows the clauses are not vacuous.                                 *)
EXTENDS Accrual, TLC
CONSTANTS Span, Quantities
VARIABLES bk, acc, z, stage
Base == 18340                     \* 2020-03-19: window range crosses 03-31 (month + quarter end)
TYM == [a \in {"Assets:A", "Liabilities:L", "Equity:Q", "Income:I", "Expenses:X", "Assets:Accrual"} |->
          CASE a \in {"Assets:A", "Assets:Accrual"} -> "A" [] a = "Liabilities:L" -> "L" [] a = "Equity:Q" -> "Q"
            [] a = "Income:I" -> "I" [] OTHER -> "X"]
Used == DOMAIN TYM \ {"Assets:Accrual"}
QuantQuick == {-700, 0, 1, 1000, 9999}
QuantThorough == {-70001, -700, -1, 0, 1, 7, 1000, 9999, 123456}
Ivs == {"daily", "weekly", "monthly", "quarterly"}

NoAcc == [iv |-> "daily", s |-> Base, e |-> Base, a |-> "Assets:Accrual"]
Init == z \in {Base - 3, Base + 5} /\ bk = << >> /\ acc = NoAcc /\ stage = 0
PickBookings ==
  /\ stage = 0 /\ stage' = 1
  /\ \E cr \in Used, dr \in Used, q \in Quantities, cr2 \in {"Assets:A", "Expenses:X"}, two \in BOOLEAN :
       /\ cr # dr
       /\ bk' = IF two THEN << [cr |-> cr, dr |-> dr, c |-> "CHF", q |-> q], [cr |-> cr2, dr |-> "Income:I", c |-> "USD", q |-> 700] >>
                    ELSE << [cr |-> cr, dr |-> dr, c |-> "CHF", q |-> q] >>
  /\ UNCHANGED <<acc, z>>
PickWindow ==
  /\ stage = 1 /\ stage' = 2
  /\ \E s \in Base..(Base + Span), e \in Base..(Base + Span), iv \in Ivs :
       s <= e /\ acc' = [iv |-> iv, s |-> s, e |-> e, a |-> "Assets:Accrual"]
  /\ UNCHANGED <<bk, z>>
Next == PickBookings \/ PickWindow
Spec == Init /\ [][Next]_<<bk, acc, z, stage>>

Orig == [z |-> z, post |-> PostingsOf(bk)]
SpecHolds == stage = 2 => C10Holds(TYM, Orig, Expand(TYM, Orig, acc, 100, "spec"), acc)
\* the repaired defect: with an equity leg the code-shaped expansion loses money
CodeShapedFails == stage = 2 =>
  ((\E n \in 1..Len(bk) : TYM[bk[n].cr] = "Q" \/ TYM[bk[n].dr] = "Q") /\ bk[1].q # 0
     => ~C10Holds(TYM, Orig, Expand(TYM, Orig, acc, 100, "code"), acc))
CodeShapedOKWithoutEquity == stage = 2 =>
  ((\A n \in 1..Len(bk) : TYM[bk[n].cr] # "Q" /\ TYM[bk[n].dr] # "Q")
     => C10Holds(TYM, Orig, Expand(TYM, Orig, acc, 100, "code"), acc))
=============================================================================
