SPECIFICATION Spec
CONSTANTS
  MaxLen = 4
  MaxOps = 3
  Emit = FALSE
INVARIANTS InText RangesOK Progress EofSticky
CHECK_DEADLOCK FALSE
