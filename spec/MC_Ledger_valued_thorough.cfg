SPECIFICATION Spec
CONSTANTS
  MaxLen = 4
  Family = "valued"
INVARIANTS AllInv
CHECK_DEADLOCK FALSE
