SPECIFICATION Spec
CONSTANTS
  MaxLen = 4
  Emit = FALSE
  Family = "valued"
INVARIANTS AllInv
CHECK_DEADLOCK FALSE
