SPECIFICATION Spec
CONSTANTS
  MaxLen = 2
  Emit = TRUE
  Family = "unvalued"
INVARIANTS EmitCase
CHECK_DEADLOCK FALSE
