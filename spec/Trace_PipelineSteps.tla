------------------------ MODULE Trace_PipelineSteps ------------------------
(* Step-by-step validation of recorded pipeline runs against Pipeline.tla.        *)
(* runs.ndjson: one line per Journal.Process call of the real knut (verif hooks): *)
(*   [id, of : stages, nd : days, failed : Process returned an error,             *)
(*    ev : Seq([s, d, err])]   the StageDay events in the order they were logged  *)
(* All runs of one file have the same (of, nd): these become NStages / NItems.    *)
(* A StageDay event is the Work(s) action on day d (logged by the stage while it  *)
(* still owns the day); every other action of the specification is unlogged and   *)
(* is taken silently.  A run is accepted when some behaviour of Pipeline.tla      *)
(* performs exactly the logged Work steps in the logged order, reaches AllDone,   *)
(* and the pool's result (error / no error) is the one the real call returned.    *)
(* Runs are concatenated: accepting run r resets the pipeline for run r + 1.      *)
(* TLC searches for the state "all runs accepted" (reported as a violation of     *)
(* NotAllAccepted); hw (TLCGet/TLCSet register 1) keeps the furthest              *)
(* (run, event) reached so that a rejection can be located.                        *)
EXTENDS Integers, Sequences, FiniteSets, Json, TLC
Runs == ndJsonDeserialize("runs.ndjson")
VARIABLES pc, hold, ret, cancelled, firstErr, closed, sinkRes, out, failSet, processed, failedRun, r, l
P == INSTANCE Pipeline WITH NStages <- Runs[1].of, NItems <- Runs[1].nd, MaxFail <- 1, CancelFirst <- FALSE
tvars == <<pc, hold, ret, cancelled, firstErr, closed, sinkRes, out, failSet, processed, failedRun, r, l>>

FailOf(n) == {<<Runs[n].ev[k].s, Runs[n].ev[k].d>> : k \in {j \in 1..Len(Runs[n].ev) : Runs[n].ev[j].err}}
Init == TLCSet(1, 0) /\ P!InitWith(FailOf(1)) /\ r = 1 /\ l = 1
Ev == Runs[r].ev
\* Until a stage fails no context is cancelled, and every unlogged step is confluent: it stays enabled until it
\* is taken, disables nothing and commutes with every other step.  The search uses that:
\*  - while no stage has failed and logged steps remain, an unlogged step is taken only when the next logged step
\*    needs it (Needed: the handoffs / checks that bring the day to the stage, or free the stage of the day it
\*    still holds) - postponing the others loses no behaviour, they are all still possible later;
\*  - once every logged step of a run without failure is matched, the remaining steps are taken eagerly in one
\*    fixed order (they all happen eventually);
\*  - from the first failing Work on (delayed cancellation, select races), every interleaving is explored.
Quiet == failedRun = {}
Sk == Runs[1].of + 1
RECURSIVE PushChain(_)
PushChain(w) ==
  LET n == w + 1 IN
  IF pc[n] = "pop" THEN [k |-> "Handoff", w |-> w]
  ELSE IF n = Sk THEN (IF pc[n] = "work" THEN [k |-> "SinkWork", w |-> n]
                       ELSE IF pc[n] = "got" THEN [k |-> "GotCheck", w |-> n] ELSE [k |-> "none", w |-> n])
  ELSE IF pc[n] = "push" THEN PushChain(n)
  ELSE [k |-> "none", w |-> n]                      \* n holds a day whose Work must be logged first
Needed(st, d) ==
  IF pc[st] = "got" THEN [k |-> "GotCheck", w |-> st]
  ELSE IF pc[st] = "push" THEN PushChain(st)
  ELSE IF pc[st] = "pop" /\ pc[st - 1] = "push" /\ hold[st - 1] = d THEN [k |-> "Handoff", w |-> st - 1]
  ELSE [k |-> "none", w |-> st]
LazySilent == LET n == Needed(Ev[l].s, Ev[l].d) IN
              CASE n.k = "Handoff" -> P!Handoff(n.w)
                [] n.k = "GotCheck" -> P!GotCheck(n.w)
                [] n.k = "SinkWork" -> P!SinkWork
                [] OTHER -> FALSE
Exiting == {w \in P!Workers : pc[w] \in {"closing", "recording", "cancelling"}}
Gots == {w \in P!Workers : pc[w] = "got"}
Hands == {c \in 0..Runs[1].of : pc[c] = "push" /\ hold[c] # 0 /\ pc[c + 1] = "pop"}
Closeds == {w \in 1..Sk : pc[w] = "pop" /\ closed[w - 1]}
MaxOf(S) == CHOOSE x \in S : \A y \in S : y <= x
SilentEnabled == \/ pc[Sk] \in {"work", "pushres"} \/ Exiting # {} \/ Gots # {} \/ Hands # {} \/ Closeds # {}
                 \/ (pc[0] = "push" /\ hold[0] = 0)
EagerSilent ==
  IF pc[Sk] = "work" THEN P!SinkWork
  ELSE IF pc[Sk] = "pushres" THEN P!SinkPushRes
  ELSE IF Exiting # {} THEN LET w == MaxOf(Exiting) IN P!CloseOut(w) \/ P!Record(w) \/ P!Cancel(w)
  ELSE IF Gots # {} THEN P!GotCheck(MaxOf(Gots))
  ELSE IF Hands # {} THEN P!Handoff(MaxOf(Hands))
  ELSE IF Closeds # {} THEN P!RecvClosed(MaxOf(Closeds))
  ELSE P!SourceDone
Event == /\ r <= Len(Runs) /\ l <= Len(Ev)
         /\ Ev[l].s \in P!Stages
         /\ pc[Ev[l].s] = "work" /\ hold[Ev[l].s] = Ev[l].d
         /\ P!Work(Ev[l].s)
         /\ l' = l + 1 /\ UNCHANGED r
Silent == /\ r <= Len(Runs)
          /\ IF ~Quiet THEN P!Silent
             ELSE IF l <= Len(Ev) THEN Ev[l].s \in P!Stages /\ LazySilent
             ELSE SilentEnabled /\ EagerSilent
          /\ UNCHANGED <<r, l>>
RunAccepted == /\ r <= Len(Runs) /\ l = Len(Ev) + 1 /\ P!AllDone
               /\ (firstErr.k # "none") = Runs[r].failed
\* the next run starts from the initial state
Reset == /\ RunAccepted
         /\ r' = r + 1 /\ l' = 1
         /\ pc' = [w \in P!Workers |-> IF w = 0 THEN "push" ELSE "pop"]
         /\ hold' = [w \in P!Workers |-> IF w = 0 /\ Runs[1].nd > 0 THEN 1 ELSE 0]
         /\ ret' = [w \in P!Workers |-> "none"]
         /\ cancelled' = FALSE /\ firstErr' = P!NoErr
         /\ closed' = [c \in 0..Runs[1].of |-> FALSE]
         /\ sinkRes' = << >> /\ out' = << >>
         /\ failSet' = IF r + 1 <= Len(Runs) THEN FailOf(r + 1) ELSE {}
         /\ processed' = [s \in P!Stages |-> << >>]
         /\ failedRun' = {}
Next == Event \/ Silent \/ Reset
Spec == Init /\ [][Next]_tvars
\* the properties of the specification hold along every matched prefix
Safe == P!InOrder /\ P!StageOrder /\ P!SingleOwner /\ P!BoundedLead /\ P!ErrorIsReal
NotAllAccepted == r <= Len(Runs)
\* furthest position reached: 100000 * run + event
HighWater == IF TLCGet(1) < 100000 * r + l THEN TLCSet(1, 100000 * r + l) ELSE TRUE
Report == PrintT("HIGHWATER " \o ToString(TLCGet(1)))
=============================================================================
