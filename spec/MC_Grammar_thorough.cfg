SPECIFICATION Spec
CONSTANTS
  MaxItems = 4
  Emit = TRUE
INVARIANTS CountOK EmitCase
CHECK_DEADLOCK FALSE
