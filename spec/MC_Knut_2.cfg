SPECIFICATION Spec
CONSTANTS
  CaseId = 2
INVARIANTS ScheduleIndependent StageOrder
PROPERTY Terminates
