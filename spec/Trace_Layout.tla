---------------------------- MODULE Trace_Layout ----------------------------
(* C05: variants of one journal (directives permuted; distributed over include  *)
(* trees) against the base rendering.                                           *)
(* case = [id, base, variant] each [exits : Seq(Int), outs : Seq(hash id),       *)
(*          printed : Seq([z, kind, h])]; exits/outs are per command             *)
(* (check, balance x flag sets, print); printed = the blocks of `knut print`.    *)
EXTENDS Integers, Sequences, FiniteSets, Json, TLC
Cases == ndJsonDeserialize("cases.ndjson")
VARIABLES i, failed
KindRank(k) == CASE k = "price" -> 1 [] k = "open" -> 2 [] k = "trx" -> 3 [] k = "balance" -> 4 [] k = "close" -> 5 [] OTHER -> 9
Keys(pr) == {<<pr[n].z, pr[n].kind>> : n \in 1..Len(pr)}
Bag(pr, key) == LET idx == {n \in 1..Len(pr) : <<pr[n].z, pr[n].kind>> = key}
                    hs == {pr[n].h : n \in idx}
                IN [h \in hs |-> Cardinality({n \in idx : pr[n].h = h})]
\* days ascending; inside a day: prices, opens, transactions, assertions, closes
NormalForm(pr) == \A n \in 1..(Len(pr) - 1) :
                     pr[n].z < pr[n + 1].z \/ (pr[n].z = pr[n + 1].z /\ KindRank(pr[n].kind) <= KindRank(pr[n + 1].kind))
Why(c) ==
  IF c.base.exits # c.variant.exits THEN "verdict-or-exit-status-depends-on-order-or-layout"
  ELSE IF \E n \in 1..Len(c.base.outs) : c.base.outs[n] # c.variant.outs[n] /\ c.balanceCmd[n] THEN "balance-report-depends-on-order-or-layout"
  ELSE IF ~NormalForm(c.variant.printed) \/ ~NormalForm(c.base.printed) THEN "printed-journal-not-in-normal-form"
  ELSE IF Keys(c.base.printed) # Keys(c.variant.printed) THEN "printed-journal-differs"
  ELSE IF \E k \in Keys(c.base.printed) : Bag(c.base.printed, k) # Bag(c.variant.printed, k) THEN "printed-journal-differs-beyond-same-day-same-kind-order"
  ELSE "ok"
Init == i = 1 /\ failed = << >>
Next == /\ i <= Len(Cases)
        /\ i' = i + 1
        /\ failed' = LET w == Why(Cases[i]) IN IF w = "ok" THEN failed ELSE Append(failed, [id |-> Cases[i].id, why |-> w])
Spec == Init /\ [][Next]_<<i, failed>>
Report == i <= Len(Cases) \/ PrintT("FAILED " \o ToJson(failed))
=============================================================================
