------------------------------ MODULE Pipeline ------------------------------
(* cpr.Seq: the per-day processing pipeline of Journal.Process (property C19;   *)
(* used by C14, C06).  Workers: 0 = source, 1..NStages = processor stages,       *)
(* NStages+1 = sink.  Channel i connects worker i to worker i+1 and is           *)
(* unbuffered (a rendezvous: Handoff).  One action per critical step of          *)
(* cpr.Pop / f / cpr.Push, and the return of a worker is three steps, as in the  *)
(* code: the deferred close of its out channel (cpr.Produce), then - in the      *)
(* conc ContextPool wrapper - addErr, then cancel.  CancelFirst = TRUE is the    *)
(* rejected design (cancel before the error is recorded), kept to show that      *)
(* ErrorIsReal is not vacuous.                                                   *)
EXTENDS Integers, Sequences, FiniteSets
CONSTANTS NStages, NItems, MaxFail, CancelFirst
VARIABLES pc, hold, ret, cancelled, firstErr, closed, sinkRes, out, failSet, processed, failedRun
vars == <<pc, hold, ret, cancelled, firstErr, closed, sinkRes, out, failSet, processed, failedRun>>

Workers == 0..(NStages + 1)
Stages == 1..NStages
Sink == NStages + 1
NoErr == [k |-> "none", w |-> -1]

InitWith(fs) ==
        /\ pc = [w \in Workers |-> IF w = 0 THEN "push" ELSE "pop"]
        /\ hold = [w \in Workers |-> IF w = 0 /\ NItems > 0 THEN 1 ELSE 0]
        /\ ret = [w \in Workers |-> "none"]
        /\ cancelled = FALSE /\ firstErr = NoErr
        /\ closed = [c \in 0..NStages |-> FALSE]
        /\ sinkRes = << >> /\ out = << >>
        /\ failSet = fs
        /\ processed = [s \in Stages |-> << >>]
        /\ failedRun = {}
Init == \E fs \in {x \in SUBSET (Stages \X (1..NItems)) : Cardinality(x) <= MaxFail} : InitWith(fs)

\* ---- a worker function returns kind (nil / real / ctx): close, record, cancel follow as separate steps
Return(w, kind) ==
  /\ pc' = [pc EXCEPT ![w] = "closing"]
  /\ ret' = [ret EXCEPT ![w] = kind]
  /\ hold' = [hold EXCEPT ![w] = 0]
\* defer close(ch) in cpr.Produce / cpr.FanIn
CloseOut(w) ==
  /\ pc[w] = "closing"
  /\ closed' = IF w <= NStages THEN [closed EXCEPT ![w] = TRUE] ELSE closed
  /\ pc' = [pc EXCEPT ![w] = IF ret[w] = "nil" THEN "done" ELSE IF CancelFirst THEN "cancelling" ELSE "recording"]
  /\ UNCHANGED <<hold, ret, cancelled, firstErr, sinkRes, out, failSet, processed, failedRun>>
\* errorPool.addErr: the first recorded error wins (WithFirstError)
Record(w) ==
  /\ pc[w] = "recording"
  /\ firstErr' = IF firstErr.k = "none" THEN [k |-> ret[w], w |-> w] ELSE firstErr
  /\ pc' = [pc EXCEPT ![w] = IF CancelFirst THEN "done" ELSE "cancelling"]
  /\ UNCHANGED <<hold, ret, cancelled, closed, sinkRes, out, failSet, processed, failedRun>>
\* p.cancel()
Cancel(w) ==
  /\ pc[w] = "cancelling"
  /\ cancelled' = TRUE
  /\ pc' = [pc EXCEPT ![w] = IF CancelFirst THEN "recording" ELSE "done"]
  /\ UNCHANGED <<hold, ret, firstErr, closed, sinkRes, out, failSet, processed, failedRun>>

\* ---- source: Push each item, then return nil
SourceDone == /\ pc[0] = "push" /\ hold[0] = 0
              /\ Return(0, "nil") /\ UNCHANGED <<cancelled, firstErr, closed, sinkRes, out, failSet, processed, failedRun>>

\* ---- rendezvous on channel c: sender c at push, receiver c+1 at pop
Handoff(c) ==
  /\ pc[c] = "push" /\ hold[c] # 0 /\ pc[c + 1] = "pop"
  /\ hold' = [hold EXCEPT ![c + 1] = hold[c], ![c] = IF c = 0 /\ hold[c] < NItems THEN hold[c] + 1 ELSE 0]
  /\ pc' = [pc EXCEPT ![c + 1] = "got", ![c] = IF c = 0 THEN "push" ELSE "pop"]
  /\ UNCHANGED <<ret, cancelled, firstErr, closed, sinkRes, out, failSet, processed, failedRun>>

\* cpr.Pop returns (d, ok, ctx.Err()): a received value is dropped when the context is already cancelled
GotCheck(w) ==
  /\ pc[w] = "got"
  /\ IF cancelled
     THEN Return(w, "ctx") /\ UNCHANGED <<cancelled, firstErr, closed, sinkRes, out, failSet, processed, failedRun>>
     ELSE /\ pc' = [pc EXCEPT ![w] = "work"]
          /\ UNCHANGED <<hold, ret, cancelled, firstErr, closed, sinkRes, out, failSet, processed, failedRun>>

\* the in channel is closed (its sender ran its deferred close) and nothing is offered
RecvClosed(w) ==
  /\ w >= 1 /\ pc[w] = "pop" /\ closed[w - 1]
  /\ IF w = Sink
     THEN IF cancelled
          THEN Return(w, "ctx") /\ UNCHANGED <<cancelled, firstErr, closed, sinkRes, out, failSet, processed, failedRun>>
          ELSE /\ pc' = [pc EXCEPT ![w] = "pushres"]
               /\ UNCHANGED <<hold, ret, cancelled, firstErr, closed, sinkRes, out, failSet, processed, failedRun>>
     ELSE Return(w, IF cancelled THEN "ctx" ELSE "nil") /\ UNCHANGED <<cancelled, firstErr, closed, sinkRes, out, failSet, processed, failedRun>>

\* select on ctx.Done() while blocked in Pop or Push
CancelSeen(w) ==
  /\ cancelled /\ pc[w] \in {"pop", "push", "pushres"}
  /\ Return(w, "ctx") /\ UNCHANGED <<cancelled, firstErr, closed, sinkRes, out, failSet, processed, failedRun>>

\* f(day): the processor callback
Work(s) ==
  /\ s \in Stages /\ pc[s] = "work"
  /\ processed' = [processed EXCEPT ![s] = Append(@, hold[s])]
  /\ IF <<s, hold[s]>> \in failSet
     THEN /\ failedRun' = failedRun \cup {<<s, hold[s]>>}
          /\ Return(s, "real") /\ UNCHANGED <<cancelled, firstErr, closed, sinkRes, out, failSet>>
     ELSE /\ pc' = [pc EXCEPT ![s] = "push"]
          /\ UNCHANGED <<hold, ret, cancelled, firstErr, closed, sinkRes, out, failSet, failedRun>>

SinkWork == /\ pc[Sink] = "work"
            /\ sinkRes' = Append(sinkRes, hold[Sink])
            /\ pc' = [pc EXCEPT ![Sink] = "pop"] /\ hold' = [hold EXCEPT ![Sink] = 0]
            /\ UNCHANGED <<ret, cancelled, firstErr, closed, out, failSet, processed, failedRun>>
\* the result channel has capacity 1: the send never blocks
SinkPushRes == /\ pc[Sink] = "pushres" /\ out' = << sinkRes >>
               /\ Return(Sink, "nil") /\ UNCHANGED <<cancelled, firstErr, closed, sinkRes, failSet, processed, failedRun>>

AllDone == \A w \in Workers : pc[w] = "done"
Finished == AllDone /\ UNCHANGED vars

\* everything but the processor callbacks (the steps the StageDay hook does not log)
Silent == \/ SourceDone \/ SinkWork \/ SinkPushRes
          \/ \E c \in 0..NStages : Handoff(c)
          \/ \E w \in Workers : GotCheck(w) \/ RecvClosed(w) \/ CancelSeen(w) \/ CloseOut(w) \/ Record(w) \/ Cancel(w)
Next == Silent \/ Finished \/ \E s \in Stages : Work(s)
Spec == Init /\ [][Next]_vars /\ WF_vars(Next)

\* ---------------------------------------------------------------- properties
Termination == <>AllDone                               \* no deadlock, no hang, all stages stop
IsPrefixOfNat(sq) == \A n \in 1..Len(sq) : sq[n] = n
InOrder == \A s \in Stages : IsPrefixOfNat(processed[s])          \* each stage sees the days in order, once
StageOrder == \A s \in 2..NStages : Len(processed[s]) <= Len(processed[s - 1])
SingleOwner == \A a, b \in 1..Sink : (a # b /\ hold[a] # 0) => hold[a] # hold[b]
\* unbuffered channels: stage s may be at most one day ahead of what stage s+1 has accepted
BoundedLead == \A s \in 1..(NStages - 1) : Len(processed[s]) <= Len(processed[s + 1]) + 2
\* p.Wait() returns firstErr; the result is read only when it is nil
Result == IF firstErr.k = "none" THEN out ELSE << >>
NoLossNoDup == (AllDone /\ firstErr.k = "none") => (sinkRes = [n \in 1..NItems |-> n] /\ out = << sinkRes >>)
ErrorIsReal == /\ firstErr.k # "ctx"                                   \* never "context canceled"
               /\ (AllDone /\ failedRun # {}) => firstErr.k = "real"   \* never success after a failing stage
               /\ firstErr.k = "real" => \E x \in failedRun : x[1] = firstErr.w
SuccessOnlyIfNoFailure == (AllDone /\ firstErr.k = "none") => failedRun = {}
\* a stage never starts a new day once the pool has been cancelled and it has noticed
NoWorkAfterExit == \A s \in Stages : pc[s] \in {"closing", "recording", "cancelling", "done"} => hold[s] = 0
=============================================================================
