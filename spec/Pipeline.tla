------------------------------ MODULE Pipeline ------------------------------
(* cpr.Seq: the per-day processing pipeline of Journal.Process (property C19;   *)
(* used by C14, C06).  Workers: 0 = source, 1..NStages = processor stages,       *)
(* NStages+1 = sink.  Channel i connects worker i to worker i+1 and is           *)
(* unbuffered (a rendezvous: Handoff).  The pool cancels the context on the      *)
(* first error, after recording it (conc ContextPool: addErr, then cancel).      *)
(* One action per critical step of cpr.Pop / f / cpr.Push.                       *)
EXTENDS Integers, Sequences, FiniteSets
CONSTANTS NStages, NItems, MaxFail
VARIABLES pc, hold, cancelled, firstErr, closed, sinkRes, out, failSet, processed, failedRun
vars == <<pc, hold, cancelled, firstErr, closed, sinkRes, out, failSet, processed, failedRun>>

Workers == 0..(NStages + 1)
Stages == 1..NStages
Sink == NStages + 1
NoErr == [k |-> "none", w |-> -1]

Init == /\ pc = [w \in Workers |-> IF w = 0 THEN "push" ELSE "pop"]
        /\ hold = [w \in Workers |-> IF w = 0 /\ NItems > 0 THEN 1 ELSE 0]
        /\ cancelled = FALSE /\ firstErr = NoErr
        /\ closed = [c \in 0..NStages |-> FALSE]
        /\ sinkRes = << >> /\ out = << >>
        /\ failSet \in {fs \in SUBSET (Stages \X (1..NItems)) : Cardinality(fs) <= MaxFail}
        /\ processed = [s \in Stages |-> << >>]
        /\ failedRun = {}

\* a worker returns: record the error (first one wins), cancel on error, close the out channel
Exit(w, kind) ==
  /\ pc' = [pc EXCEPT ![w] = "done"]
  /\ hold' = [hold EXCEPT ![w] = 0]
  /\ firstErr' = IF kind # "nil" /\ firstErr.k = "none" THEN [k |-> kind, w |-> w] ELSE firstErr
  /\ cancelled' = (cancelled \/ kind # "nil")
  /\ closed' = IF w <= NStages THEN [closed EXCEPT ![w] = TRUE] ELSE closed

\* ---- source: Push each item, then return nil
SourceDone == /\ pc[0] = "push" /\ hold[0] = 0
              /\ Exit(0, "nil") /\ UNCHANGED <<sinkRes, out, failSet, processed, failedRun>>

\* ---- rendezvous on channel c: sender c at push, receiver c+1 at pop
Handoff(c) ==
  /\ pc[c] = "push" /\ hold[c] # 0 /\ pc[c + 1] = "pop"
  /\ hold' = [hold EXCEPT ![c + 1] = hold[c], ![c] = IF c = 0 /\ hold[c] < NItems THEN hold[c] + 1 ELSE 0]
  /\ pc' = [pc EXCEPT ![c + 1] = "got", ![c] = IF c = 0 THEN "push" ELSE "pop"]
  /\ UNCHANGED <<cancelled, firstErr, closed, sinkRes, out, failSet, processed, failedRun>>

\* cpr.Pop returns (d, ok, ctx.Err()): a received value is dropped when the context is already cancelled
GotCheck(w) ==
  /\ pc[w] = "got"
  /\ IF cancelled
     THEN Exit(w, "ctx") /\ UNCHANGED <<sinkRes, out, failSet, processed, failedRun>>
     ELSE /\ pc' = [pc EXCEPT ![w] = "work"]
          /\ UNCHANGED <<hold, cancelled, firstErr, closed, sinkRes, out, failSet, processed, failedRun>>

\* the in channel is closed (its sender returned) and nothing is offered
RecvClosed(w) ==
  /\ w >= 1 /\ pc[w] = "pop" /\ closed[w - 1] /\ pc[w - 1] = "done"
  /\ IF w = Sink
     THEN IF cancelled
          THEN Exit(w, "ctx") /\ UNCHANGED <<sinkRes, out, failSet, processed, failedRun>>
          ELSE /\ pc' = [pc EXCEPT ![w] = "pushres"]
               /\ UNCHANGED <<hold, cancelled, firstErr, closed, sinkRes, out, failSet, processed, failedRun>>
     ELSE Exit(w, IF cancelled THEN "ctx" ELSE "nil") /\ UNCHANGED <<sinkRes, out, failSet, processed, failedRun>>

\* select on ctx.Done() while blocked in Pop or Push
CancelSeen(w) ==
  /\ cancelled /\ pc[w] \in {"pop", "push", "pushres"}
  /\ Exit(w, "ctx") /\ UNCHANGED <<sinkRes, out, failSet, processed, failedRun>>

\* f(day): the processor callback
Work(s) ==
  /\ s \in Stages /\ pc[s] = "work"
  /\ processed' = [processed EXCEPT ![s] = Append(@, hold[s])]
  /\ IF <<s, hold[s]>> \in failSet
     THEN /\ failedRun' = failedRun \cup {<<s, hold[s]>>}
          /\ Exit(s, "real") /\ UNCHANGED <<sinkRes, out, failSet>>
     ELSE /\ pc' = [pc EXCEPT ![s] = "push"]
          /\ UNCHANGED <<hold, cancelled, firstErr, closed, sinkRes, out, failSet, failedRun>>

SinkWork == /\ pc[Sink] = "work"
            /\ sinkRes' = Append(sinkRes, hold[Sink])
            /\ pc' = [pc EXCEPT ![Sink] = "pop"] /\ hold' = [hold EXCEPT ![Sink] = 0]
            /\ UNCHANGED <<cancelled, firstErr, closed, out, failSet, processed, failedRun>>
\* the result channel has capacity 1: the send never blocks
SinkPushRes == /\ pc[Sink] = "pushres" /\ out' = << sinkRes >>
               /\ Exit(Sink, "nil") /\ UNCHANGED <<sinkRes, failSet, processed, failedRun>>

AllDone == \A w \in Workers : pc[w] = "done"
Finished == AllDone /\ UNCHANGED vars

Next == \/ SourceDone \/ SinkWork \/ SinkPushRes \/ Finished
        \/ \E c \in 0..NStages : Handoff(c)
        \/ \E w \in Workers : GotCheck(w) \/ RecvClosed(w) \/ CancelSeen(w)
        \/ \E s \in Stages : Work(s)
Spec == Init /\ [][Next]_vars /\ WF_vars(Next)

\* ---------------------------------------------------------------- properties
Termination == <>AllDone                               \* no deadlock, no hang, all stages stop
RECURSIVE IsPrefixOfNat(_)
IsPrefixOfNat(sq) == \A n \in 1..Len(sq) : sq[n] = n
InOrder == \A s \in Stages : IsPrefixOfNat(processed[s])          \* each stage sees the days in order, once
StageOrder == \A s \in 2..NStages : Len(processed[s]) <= Len(processed[s - 1])
SingleOwner == \A a, b \in 1..Sink : (a # b /\ hold[a] # 0) => hold[a] # hold[b]
\* unbuffered channels: stage s may be at most one day ahead of what stage s+1 has accepted
BoundedLead == \A s \in 1..(NStages - 1) : Len(processed[s]) <= Len(processed[s + 1]) + 2
NoLossNoDup == (AllDone /\ firstErr.k = "none") => (sinkRes = [n \in 1..NItems |-> n] /\ out = << sinkRes >>)
ErrorIsReal == /\ firstErr.k # "ctx"                                   \* never "context canceled"
               /\ (failedRun # {}) => firstErr.k = "real"              \* never success after a failing stage
               /\ firstErr.k = "real" => \E x \in failedRun : x[1] = firstErr.w
SuccessOnlyIfNoFailure == (AllDone /\ firstErr.k = "none") => failedRun = {}
=============================================================================
