SPECIFICATION Spec
CONSTANTS
  MaxItems = 3
  Emit = TRUE
INVARIANTS CountOK EmitCase
CHECK_DEADLOCK FALSE
