SPECIFICATION Spec
CONSTANTS
  NFiles = 4
  MaxFail = 2
  Drain = TRUE
INVARIANTS NoLossNoDup SuccessIffClean ErrorIsReal AddedWereLoaded
PROPERTY Termination
