SPECIFICATION Spec
CONSTANTS
  NFiles = 5
  MaxFail = 2
  Drain = TRUE
INVARIANTS NoLossNoDup SuccessIffClean ErrorIsReal AddedWereLoaded
PROPERTY Termination
