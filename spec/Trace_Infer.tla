---------------------------- MODULE Trace_Infer ----------------------------
(* Judges real `knut infer` runs.  case = [id, P, cands : Seq(account),          *)
(*   before, after : Seq([cr, dr]), tin, tout : Seq(token) (formatted input /     *)
(*   output split at white space), parses, runsSame, exit, inplaceSame]           *)
EXTENDS Infer, Json, TLC
Cases == ndJsonDeserialize("cases.ndjson")
VARIABLES i, failed
SetOf(sq) == {sq[n] : n \in 1..Len(sq)}
Why(c) ==
  IF c.exit # 0 THEN "infer-failed"
  ELSE IF ~c.parses THEN "output-does-not-parse"
  ELSE IF ~OnlyPlaceholdersReplaced(c.P, c.tin, c.tout) THEN "something-other-than-the-placeholder-changed"
  ELSE IF ~Allowed(c.P, SetOf(c.cands), c.before, c.after) THEN "replacement-not-allowed"
  ELSE IF ~OnlyInBookings(c.tin, c.tout, c.before, c.after) THEN "placeholder-text-replaced-outside-bookings"
  ELSE IF ~c.runsSame THEN "choice-differs-between-runs"
  ELSE IF ~c.inplaceSame THEN "inplace-differs-from-stdout"
  ELSE "ok"
Init == i = 1 /\ failed = << >>
Next == /\ i <= Len(Cases)
        /\ i' = i + 1
        /\ failed' = LET w == Why(Cases[i]) IN IF w = "ok" THEN failed ELSE Append(failed, [id |-> Cases[i].id, why |-> w])
Spec == Init /\ [][Next]_<<i, failed>>
Report == i <= Len(Cases) \/ PrintT("FAILED " \o ToJson(failed))
=============================================================================
