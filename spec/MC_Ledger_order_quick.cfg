SPECIFICATION Spec
CONSTANTS
  MaxLen = 2
  Family = "order"
INVARIANTS AllInv
CHECK_DEADLOCK FALSE
