SPECIFICATION Spec
CONSTANTS
  MaxLen = 2
  Emit = FALSE
  Family = "order"
INVARIANTS AllInv
CHECK_DEADLOCK FALSE
