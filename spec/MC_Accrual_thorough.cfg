SPECIFICATION Spec
CONSTANTS
  Span = 40
  Quantities <- QuantThorough
INVARIANTS SpecHolds CodeShapedFails CodeShapedOKWithoutEquity
CHECK_DEADLOCK FALSE
