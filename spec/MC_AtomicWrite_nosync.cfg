SPECIFICATION Spec
CONSTANTS
  NewLen = 6
  Design = "nosync"
INVARIANTS Intact NewOnlyByRename NoLitterOnError SuccessMeansNew FailureMeansOld
PROPERTY Completes
CHECK_DEADLOCK FALSE
