----------------------------- MODULE MC_Ledger -----------------------------
(* Exhaustive small-scope check of the processing pipeline model: every journal  *)
(* (multiset of menu directives, up to MaxLen, all accounts opened beforehand)   *)
(* x every flag combination of the chosen family.  Days straddle a week          *)
(* (Sun 2019-12-29 | Mon 12-30) and a month/quarter/year (12-30 | 2020-01-01)    *)
(* boundary.                                                                     *)
EXTENDS Ledger, TLC, Json
CONSTANTS MaxLen, Family, Emit
VARIABLES journal, flags

D1 == 18259  D2 == 18260  D3 == 18262
DaysM == {D1, D2, D3}
AcctsM == {"Assets:A:B", "Liabilities:L", "Equity:Equity", "Expenses:X", "Income:I"}
AllNames == AcctsM \cup {"Assets", "Assets:A", "Liabilities", "Equity", "Expenses", "Income", "Income:A", "Income:A:B", "Income:L",
                         "Liabilities:A", "Liabilities:A:B", "Assets:L", "Assets:B", "Liabilities:B", "Expenses:I", "Income:X"}
TypeOfHead(h) == CASE h = "Assets" -> "A" [] h = "Liabilities" -> "L" [] h = "Equity" -> "Q" [] h = "Income" -> "I" [] h = "Expenses" -> "X"
SEGS == [a \in AllNames |->
   CASE a = "Assets:A:B" -> <<"Assets", "A", "B">> [] a = "Income:A:B" -> <<"Income", "A", "B">> [] a = "Liabilities:A:B" -> <<"Liabilities", "A", "B">>
     [] a = "Assets:A" -> <<"Assets", "A">> [] a = "Income:A" -> <<"Income", "A">> [] a = "Liabilities:A" -> <<"Liabilities", "A">>
     [] a = "Liabilities:L" -> <<"Liabilities", "L">> [] a = "Income:L" -> <<"Income", "L">> [] a = "Assets:L" -> <<"Assets", "L">>
     [] a = "Assets:B" -> <<"Assets", "B">> [] a = "Liabilities:B" -> <<"Liabilities", "B">>
     [] a = "Equity:Equity" -> <<"Equity", "Equity">> [] a = "Expenses:X" -> <<"Expenses", "X">> [] a = "Income:X" -> <<"Income", "X">>
     [] a = "Income:I" -> <<"Income", "I">> [] a = "Expenses:I" -> <<"Expenses", "I">>
     [] OTHER -> << a >>]
TY == [a \in AllNames |-> TypeOfHead(SEGS[a][1])]

Opens == [n \in 1..5 |-> [k |-> "open", z |-> D1 - 1, a |-> SetToSeq(AcctsM)[n]]]

PairsM == {<<"Equity:Equity", "Assets:A:B">>, <<"Assets:A:B", "Expenses:X">>, <<"Income:I", "Assets:A:B">>, <<"Assets:A:B", "Liabilities:L">>}
TrxMenu == {[k |-> "trx", z |-> z, bk |-> << [cr |-> x[1], dr |-> x[2], c |-> c, q |-> q] >>, acc |-> [on |-> FALSE]] :
               z \in DaysM, x \in PairsM, c \in {"CHF", "USD"}, q \in {2, -1}}
PriceMenu == {[k |-> "price", z |-> z, c |-> "USD", p |-> p, t |-> "CHF"] : z \in DaysM, p \in {5000, 20000}}
ValuedTrxMenu == {[k |-> "trx", z |-> z, bk |-> << [cr |-> x[1], dr |-> x[2], c |-> "USD", q |-> q] >>, acc |-> [on |-> FALSE]] :
               z \in DaysM, x \in {<<"Equity:Equity", "Assets:A:B">>, <<"Assets:A:B", "Expenses:X">>, <<"Assets:A:B", "Liabilities:L">>}, q \in {2, -1}}
Menu == IF Family = "valued" THEN ValuedTrxMenu \cup PriceMenu ELSE TrxMenu

MenuSeq == SetToSeq(Menu)
Idx(d) == CHOOSE n \in 1..Len(MenuSeq) : MenuSeq[n] = d
KindRank(k) == CASE k = "price" -> 0 [] k = "trx" -> 2
Rank(d) == (d.z - D1) * 10 + KindRank(d.k)

NoMap == [from |-> D1 - 1, to |-> D3 + 1, iv |-> "once", last |-> 0, diff |-> FALSE, close |-> FALSE,
          acctAll |-> TRUE, accts |-> << >>, commAll |-> TRUE, commsF |-> << >>, map |-> << >>, remap |-> << >>, show |-> << >>]
Windows == {<<D1 - 1, D3 + 1>>, <<D2, D3 + 1>>, <<D1 - 1, D2>>}
FlagSet ==
  CASE Family = "unvalued" ->
         {[NoMap EXCEPT !.from = w[1], !.to = w[2], !.iv = iv, !.last = l, !.diff = df] :
             w \in Windows, iv \in {"once", "daily", "weekly", "monthly"}, l \in {0, 1}, df \in BOOLEAN}
    [] Family = "close" ->
         {[NoMap EXCEPT !.from = w[1], !.to = w[2], !.iv = iv, !.last = l, !.diff = df, !.close = TRUE] :
             w \in Windows, iv \in {"daily", "weekly", "yearly"}, l \in {0, 1}, df \in BOOLEAN}
    [] Family = "valued" ->
         {[NoMap EXCEPT !.from = w[1], !.to = w[2], !.iv = iv, !.diff = df, !.close = cl] :
             w \in Windows, iv \in {"once", "daily", "quarterly"}, df \in BOOLEAN, cl \in BOOLEAN}
    [] Family = "order" ->
         {[NoMap EXCEPT !.iv = iv, !.close = cl, !.diff = df] : iv \in {"once", "daily"}, cl \in BOOLEAN, df \in BOOLEAN}
    [] Family = "mapping" ->
         {[NoMap EXCEPT !.iv = iv, !.map = m, !.remap = rm, !.acctAll = fa[1], !.accts = fa[2]] :
             iv \in {"once", "daily"},
             m \in {<< >>, << [level |-> 0, suffix |-> 0, all |-> FALSE, match |-> <<"Expenses:X">>] >>,
                    << [level |-> 1, suffix |-> 1, all |-> TRUE, match |-> << >>] >>,
                    << [level |-> 2, suffix |-> 0, all |-> FALSE, match |-> <<"Assets:A:B", "Liabilities:A:B">>] >>,
                    << [level |-> 1, suffix |-> 0, all |-> FALSE, match |-> <<"Income:I">>], [level |-> 0, suffix |-> 0, all |-> TRUE, match |-> << >>] >>},
             rm \in {<< >>, <<"Assets:A:B">>, <<"Expenses:X", "Income:I">>},
             fa \in {<<TRUE, << >> >>, <<FALSE, <<"Assets:A:B", "Expenses:X">> >>}}

ValuationOf == IF Family = "valued" THEN "CHF" ELSE ""
MkCase(j, f) == [qs |-> 1, ty |-> TY, segs |-> SEGS, comms |-> <<"CHF", "USD">>, V |-> ValuationOf,
                 journal |-> Opens \o j, flags |-> f]

Init == journal = << >> /\ flags \in FlagSet
Next == /\ Len(journal) < MaxLen
        /\ \E d \in Menu :
             /\ (IF journal = << >> THEN TRUE ELSE Idx(journal[Len(journal)]) <= Idx(d))   \* each multiset once
             /\ journal' = Append(journal, d)
        /\ UNCHANGED flags
Spec == Init /\ [][Next]_<<journal, flags>>

Case == MkCase(journal, flags)
HasTrx == \E n \in 1..Len(journal) : journal[n].k = "trx"
Defined == HasTrx                         \* a report needs a journal period
Complete == flags.acctAll /\ flags.commAll /\ \A n \in 1..Len(flags.map) : flags.map[n].level # 0

\* every transaction at every stage is a sequence of exact-negative pairs
IsPairs(t) == /\ Len(t) % 2 = 0
              /\ \A n \in 1..(Len(t) \div 2) :
                    LET x == t[2 * n - 1]  y == t[2 * n] IN
                    x.q = -y.q /\ x.v = -y.v /\ x.c = y.c /\ x.a = y.o /\ x.o = y.a
PairInvP(fin) ==
  \A n \in 1..Len(fin.trace) :
     /\ \A m \in 1..Len(fin.trace[n].valued) : IsPairs(fin.trace[n].valued[m])
     /\ \A m \in 1..Len(fin.trace[n].final) : IsPairs(fin.trace[n].final[m])

\* C01
DeltaZeroP(case, fin, np) == Complete =>
   \A c \in Comms(case) : \A k \in 1..np : DeltaCell(case, fin.rep, c, k) = 0

\* C02: operational cells = declarative sums
CellsMatchRefP(case, fin, np) == (case.V = "" /\ ~flags.close) =>
   \A a \in Accts(case) : \A c \in Comms(case) : \A k \in 1..np :
      Cell(case, fin.rep, a, c, k) = RefCellNoClose(case, a, c, k)
\* C02 with closing: income/expense rows restart at each period start ...
PeriodSum(case, dirs, ps, ws, we, a, c, k) ==
  SumOver(dirs, LAMBDA d : IF d.k = "trx" /\ ps[k].s <= d.z /\ d.z <= ps[k].e /\ ws <= d.z /\ d.z <= we
                           THEN SumOver(d.post, LAMBDA p : IF p.a = a /\ p.c = c THEN p.q ELSE 0) ELSE 0)
ClosedRowsRestartP(case, fin, dirs, ps, np) == (case.V = "" /\ flags.close /\ ~flags.diff /\ flags.map = << >> /\ flags.remap = << >>) =>
   \A a \in {x \in Accts(case) : IsIE(case.ty, x)} : \A c \in Comms(case) : \A k \in 1..np :
      Cell(case, fin.rep, a, c, k) = -PeriodSum(case, dirs, ps, WinS(case, dirs), WinE(case, dirs), a, c, k)
\* ... and asset/liability rows are not affected by closing
ClosingLeavesALP(case, fin, np) == (case.V = "" /\ flags.close /\ flags.map = << >> /\ flags.remap = << >>) =>
   \A a \in {x \in Accts(case) : IsAL(case.ty, x)} : \A c \in Comms(case) : \A k \in 1..np :
      Cell(case, fin.rep, a, c, k) = RefCellNoClose(case, a, c, k)
\* C03: mark to market
MTMP(case, fin, dirs, ps, np) == (case.V # "" /\ ~flags.diff) =>
   \A a \in {x \in Accts(case) : IsAL(case.ty, x)} : \A k \in 1..np :
      ValuedCell(case, fin.rep, a, k) = RefMTM(case, a, ps[k].e) - RefMTM(case, a, WinS(case, dirs) - 1)
\* a needed price that does not exist is an error, never a number
MissingPriceIsErrorP(case, fin) == case.V # "" =>
   (Failed(fin) <=> \E n \in 1..Len(journal) :
        journal[n].k = "trx" /\ journal[n].bk[1].q # 0 /\ journal[n].bk[1].c # case.V
        /\ LatestNorm(case, journal[n].z)[journal[n].bk[1].c] = NoPrice)

\* C05: the verdict and the report are functions of the bag of directives, not of their order
Permute(sq, p) == [n \in 1..Len(sq) |-> sq[p[n]]]
OrderIrrelevantP(case, fin) == Family = "order" =>
   \A p \in Permutations(1..Len(journal)) :                 \* the opens interleaved at the end instead of the start
      LET fin2 == Run([case EXCEPT !.journal = Permute(journal, p) \o Opens])
      IN fin2.rep = fin.rep /\ Failed(fin2) = Failed(fin) /\ fin2.lc.err.k = fin.lc.err.k

\* generation: every (journal, flags) of the scope, for replay through the real CLI
EmitCase == (Emit /\ HasTrx) => PrintT("CASE " \o ToJson([journal |-> journal, flags |-> flags, v |-> ValuationOf]))

\* one evaluation of Run per state
AllInv ==
  Defined =>
    LET case == Case
        fin == Run(case)
        dirs == Expanded(case)
        ps == Periods(case, dirs)
        np == Len(ps)
    IN /\ fin.lc.err.k = "none"                       \* Accepted
       /\ PairInvP(fin)
       /\ MissingPriceIsErrorP(case, fin)
       /\ OrderIrrelevantP(case, fin)
       /\ ~Failed(fin) =>
             /\ DeltaZeroP(case, fin, np)
             /\ CellsMatchRefP(case, fin, np)
             /\ ClosedRowsRestartP(case, fin, dirs, ps, np)
             /\ ClosingLeavesALP(case, fin, np)
             /\ MTMP(case, fin, dirs, ps, np)
=============================================================================
