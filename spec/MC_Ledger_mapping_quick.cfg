SPECIFICATION Spec
CONSTANTS
  MaxLen = 2
  Emit = FALSE
  Family = "mapping"
INVARIANTS AllInv
CHECK_DEADLOCK FALSE
