SPECIFICATION Spec
CONSTANTS
  MaxLen = 2
  Family = "mapping"
INVARIANTS AllInv
CHECK_DEADLOCK FALSE
