--------------------------- MODULE AtomicWriteInd ---------------------------
(* Inductive-invariant proof (Apalache) that the write protocol of              *)
(* MC_AtomicWrite (design "atomic") keeps TargetIntact for EVERY length of the   *)
(* new contents, not only the lengths TLC enumerates.  Same actions as           *)
(* MC_AtomicWrite, flattened to typed variables.                                 *)
EXTENDS Integers
CONSTANT
  \* @type: Int;
  NewLen
VARIABLES
  \* @type: Str;
  target,
  \* @type: Str;
  temp,
  \* @type: Int;
  wrote,
  \* @type: Bool;
  synced,
  \* @type: Bool;
  renamed,
  \* @type: Str;
  pc,
  \* @type: Bool;
  alive,
  \* @type: Bool;
  failed

ConstInit == NewLen \in Nat /\ NewLen >= 1

Init == /\ target = "Old" /\ temp = "absent" /\ wrote = 0 /\ synced = FALSE /\ renamed = FALSE
        /\ pc = "start" /\ alive = TRUE /\ failed = FALSE

OpenTemp == /\ alive /\ pc = "start"
            /\ \/ /\ temp' = "open" /\ wrote' = 0 /\ synced' = FALSE /\ pc' = "write" /\ failed' = failed
               \/ /\ temp' = temp /\ wrote' = wrote /\ synced' = synced /\ pc' = "done" /\ failed' = TRUE
            /\ UNCHANGED <<target, renamed, alive>>
Write == /\ alive /\ pc = "write"
         /\ \E k \in Int :
              /\ k >= 0 /\ wrote + k <= NewLen
              /\ wrote' = wrote + k
              /\ synced' = IF k > 0 THEN FALSE ELSE synced
              /\ \/ /\ k >= 1 /\ pc' = (IF wrote + k = NewLen THEN "fsync" ELSE "write") /\ failed' = failed
                 \/ /\ wrote + k < NewLen /\ pc' = "cleanup" /\ failed' = TRUE          \* short write, then the error
         /\ UNCHANGED <<target, temp, renamed, alive>>
Fsync == /\ alive /\ pc = "fsync"
         /\ \/ synced' = TRUE /\ pc' = "close" /\ failed' = failed
            \/ synced' = synced /\ pc' = "cleanup" /\ failed' = TRUE
         /\ UNCHANGED <<target, temp, wrote, renamed, alive>>
Close == /\ alive /\ pc = "close" /\ temp' = "closed" /\ pc' = "chmod"
         /\ UNCHANGED <<target, wrote, synced, renamed, alive, failed>>
Chmod == /\ alive /\ pc = "chmod"
         /\ \/ pc' = "rename" /\ failed' = failed
            \/ pc' = "cleanup" /\ failed' = TRUE
         /\ UNCHANGED <<target, temp, wrote, synced, renamed, alive>>
Rename == /\ alive /\ pc = "rename"
          /\ \/ /\ temp' = "absent" /\ renamed' = TRUE /\ pc' = "done" /\ failed' = failed
                /\ target' = IF temp # "absent" /\ wrote = NewLen /\ synced THEN "New" ELSE "Bad"
             \/ /\ pc' = "cleanup" /\ failed' = TRUE /\ UNCHANGED <<target, temp, renamed>>
          /\ UNCHANGED <<wrote, synced, alive>>
Cleanup == /\ alive /\ pc = "cleanup" /\ temp' = (IF temp = "open" THEN "closed" ELSE temp) /\ pc' = "unlink"
           /\ UNCHANGED <<target, wrote, synced, renamed, alive, failed>>
Unlink == /\ alive /\ pc = "unlink" /\ temp' = "absent" /\ pc' = "done"
          /\ UNCHANGED <<target, wrote, synced, renamed, alive, failed>>
Crash == /\ alive /\ pc # "done" /\ alive' = FALSE
         /\ UNCHANGED <<target, temp, wrote, synced, renamed, pc, failed>>
Next == OpenTemp \/ Write \/ Fsync \/ Close \/ Chmod \/ Rename \/ Cleanup \/ Unlink \/ Crash

TargetIntact == target \in {"Old", "New"}
PCs == {"start", "write", "fsync", "close", "chmod", "rename", "cleanup", "unlink", "done"}
IndInv ==
  /\ target \in {"Old", "New"}
  /\ temp \in {"absent", "open", "closed"}
  /\ pc \in PCs
  /\ wrote >= 0 /\ wrote <= NewLen
  /\ (pc = "write" => temp = "open" /\ wrote < NewLen)
  /\ (pc = "fsync" => temp = "open" /\ wrote = NewLen)
  /\ (pc = "close" => temp = "open" /\ wrote = NewLen /\ synced)
  /\ (pc \in {"chmod", "rename"} => temp = "closed" /\ wrote = NewLen /\ synced)
  /\ (target = "New" => renamed /\ pc = "done")
  /\ (pc = "done" /\ failed => target = "Old")
  /\ (pc \in {"cleanup", "unlink"} => failed /\ target = "Old")
  /\ (pc # "done" => target = "Old")
  /\ (failed => pc \in {"cleanup", "unlink", "done"})
\* initial-state predicate for the inductive step: any typed state satisfying IndInv
IndInit ==
  /\ target \in {"Old", "New", "Bad"} /\ temp \in {"absent", "open", "closed"} /\ wrote \in Int
  /\ synced \in BOOLEAN /\ renamed \in BOOLEAN /\ pc \in PCs /\ alive \in BOOLEAN /\ failed \in BOOLEAN
  /\ IndInv
=============================================================================
