------------------------------ MODULE Grammar ------------------------------
(* Line-structured model of the journal grammar (properties C07, C08): a file is *)
(* a sequence of items.  Single-line items end at their newline.  Block items     *)
(* (transaction with k bookings, multi-line balance with k rows) extend until a   *)
(* line that starts with white space, a newline or the end of the file - so a     *)
(* block directly followed by a comment or a directive swallows that line as one  *)
(* more row and the file is rejected.  Annotations (@performance / @accrue lines) *)
(* belong to the transaction that follows them directly; in front of any other    *)
(* directive they are rejected (before repair D18 they were accepted and silently *)
(* dropped).  Damaged items are rejected wherever they stand.                     *)
EXTENDS Integers, Sequences, FiniteSets, TLC, Json
CONSTANTS MaxItems, Emit
VARIABLES items
Single == {"open", "close", "price", "balance1", "include"}
Blocks == {"trx1", "trx2", "balanceN"}
Annot == {"perf", "accrue"}                 \* annotation line(s) in front of the next directive
Damaged == {"badword", "nodate", "stray", "indented", "badaccount", "unterminated"}
Kinds == Single \cup Blocks \cup Annot \cup Damaged \cup {"blank", "comment"}
IsDirective(k) == k \in Single \cup Blocks
IsTrx(k) == k \in {"trx1", "trx2"}

\* the file parses iff nothing is damaged, no block is directly followed by a non-blank line,
\* and every annotation is directly followed by a transaction (or another annotation of the other kind and then one)
Parses(its) ==
  /\ \A n \in 1..Len(its) : its[n] \notin Damaged
  /\ \A n \in 1..(Len(its) - 1) : its[n] \in Blocks => its[n + 1] = "blank"
  /\ \A n \in 1..Len(its) : its[n] \in Annot =>
        /\ n < Len(its)
        /\ (IsTrx(its[n + 1]) \/ (its[n + 1] \in Annot /\ its[n + 1] # its[n] /\ n + 1 < Len(its) /\ IsTrx(its[n + 2])))
  /\ \A n \in 1..(Len(its) - 2) : ~(its[n] \in Annot /\ its[n + 1] \in Annot /\ its[n + 2] \in Annot)
\* the directives of an accepted file, in order: [kind, rows, perf, accrue]
RECURSIVE Dirs(_, _, _)
Dirs(its, perf, acc) ==
  IF its = << >> THEN << >>
  ELSE LET k == Head(its) IN
       IF k = "perf" THEN Dirs(Tail(its), TRUE, acc)
       ELSE IF k = "accrue" THEN Dirs(Tail(its), perf, TRUE)
       ELSE IF IsDirective(k)
       THEN << [kind |-> k, perf |-> perf /\ IsTrx(k), accrue |-> acc /\ IsTrx(k)] >> \o Dirs(Tail(its), FALSE, FALSE)
       ELSE Dirs(Tail(its), perf, acc)

Init == items = << >>
Next == Len(items) < MaxItems /\ \E k \in Kinds : items' = Append(items, k)
Spec == Init /\ [][Next]_items
\* sanity of the model itself: accepted files have as many directives as directive items
CountOK == Parses(items) => Len(Dirs(items, FALSE, FALSE)) = Cardinality({n \in 1..Len(items) : IsDirective(items[n])})
EmitCase == Emit => PrintT("CASE " \o ToJson([items |-> items, ok |-> Parses(items), dirs |-> IF Parses(items) THEN Dirs(items, FALSE, FALSE) ELSE << >>]))
=============================================================================
