SPECIFICATION Spec
CONSTANTS
  Base = 18245
  Span = 30
  Lasts <- LastsDef
INVARIANTS PartitionOK AlignOK CoverOK RecursiveAgrees CivilRoundTrip
PROPERTY Terminates
CHECK_DEADLOCK FALSE
