SPECIFICATION Spec
CONSTANTS
  Ordered = FALSE
INVARIANTS ResultAllowed SameEveryRun
CHECK_DEADLOCK FALSE
