------------------------------ MODULE Portfolio ------------------------------
(* Portfolio analytics over the valued ledger (property C20).  Integer regime:   *)
(* integer quantities, integer prices declared directly in the valuation          *)
(* commodity, so every value is an integer number of units (Ledger values / S).   *)
EXTENDS Ledger

Units(v) == v \div S
\* the portfolio: asset / liability accounts that pass --account, commodities that pass --commodity
InP(case, a) == IsAL(case.ty, a) /\ (case.flags.acctAll \/ a \in SetOf(case.flags.accts))
InF(case, c) == case.flags.commAll \/ c \in SetOf(case.flags.commsF)
\* valued holdings of commodity c over the portfolio accounts at the end of day z
Holding(case, c, z) ==
  LET norm == LatestNorm(case, z)
      q == SumOver(SetToSeq({a \in Accts(case) : InP(case, a)}), LAMBDA a : QtyUpTo(case, a, c, z))
  IN IF q = 0 \/ ~InF(case, c) THEN 0 ELSE IF c = case.V THEN q ELSE Units(q * norm[c])
Total(case, z) == SumOver(SetToSeq(Comms(case)), LAMBDA c : Holding(case, c, z))

\* external flows of a period: user postings in a portfolio commodity on a portfolio account whose other side is
\* not a portfolio account (with a commodity filter, buying a portfolio commodity with cash is such a flow)
HasFlow(case, lo, hi) ==
  \E n \in 1..Len(case.journal) :
     LET d == case.journal[n] IN
     d.k = "trx" /\ lo <= d.z /\ d.z <= hi /\ ~d.perf /\
     \E m \in 1..Len(d.bk) : d.bk[m].q # 0 /\ InF(case, d.bk[m].c) /\ (InP(case, d.bk[m].cr) # InP(case, d.bk[m].dr))
\* transactions annotated with @performance are internal performance effects (a fee, a dividend), not external
\* flows: a period with only such transactions has no flows and its return is end value over start value minus one
HasPerfTrx(case, lo, hi) ==
  \E n \in 1..Len(case.journal) : case.journal[n].k = "trx" /\ lo <= case.journal[n].z /\ case.journal[n].z <= hi /\ case.journal[n].perf
PriceChanged(case, lo, hi) ==
  \E n \in 1..Len(case.journal) : case.journal[n].k = "price" /\ lo <= case.journal[n].z /\ case.journal[n].z <= hi
      /\ \E c \in Comms(case) : InF(case, c) /\ LatestNorm(case, case.journal[n].z)[c] # LatestNorm(case, lo - 1)[c]

\* the universe path of a commodity after the -m rule (first matching rule wins), as a pure function
Locate(case, c) == IF c \in DOMAIN case.universe THEN case.universe[c] ELSE <<"Other", c>>
RECURSIVE MapPath(_, _, _)
MapPath(case, rules, ss) ==
  IF rules = << >> THEN ss
  ELSE LET r == Head(rules)  n == Len(ss) IN
       IF ~(r.all \/ Join(ss) \in SetOf(r.match)) THEN MapPath(case, Tail(rules), ss)
       ELSE IF r.level < n - r.suffix THEN SubSeq(ss, 1, r.level) \o SubSeq(ss, n - r.suffix + 1, n) ELSE ss
PathOf(case, c) == MapPath(case, case.flags.map, Locate(case, c))
IsPrefixOf(p, ss) == Len(p) <= Len(ss) /\ SubSeq(ss, 1, Len(p)) = p
\* value below a node of the weights tree
NodeValue(case, path, z) ==
  SumOver(SetToSeq(Comms(case)), LAMBDA c : IF IsPrefixOf(path, PathOf(case, c)) THEN Holding(case, c, z) ELSE 0)
=============================================================================
