--------------------------- MODULE Trace_Prices ---------------------------
(* Judges results recorded from the real price.Prices (Insert*, Normalize).     *)
(* case = [id, sc, order, v, decls : Seq([c, p, t]),                             *)
(*         outs : Seq([c -> price | -1])  (distinct results of R repetitions),  *)
(*         zero : BOOLEAN (a zero price was among the inserts), zeroRejected]    *)
EXTENDS Prices, Json, TLC
Cases == ndJsonDeserialize("cases.ndjson")
VARIABLES i, failed
Why(c) ==
  LET cs == RangeOf(c.order)
      g == InsertAll(c.sc, EmptyGraph(cs), c.decls)
  IN IF c.zero THEN (IF c.zeroRejected THEN "ok" ELSE "zero-price-accepted")
     ELSE IF Len(c.outs) # 1 THEN "result-depends-on-iteration-order"
     ELSE LET res == c.outs[1] IN
          IF res[c.v] # Scale(c.sc) THEN "V-not-1"
          ELSE IF \E x \in cs \ {c.v} : g[c.v][x] # NoPrice /\ res[x] # g[c.v][x] THEN "direct-price-does-not-win"
          ELSE IF \E x \in cs : ChainVals(c.sc, g, cs, c.v, x) = {} /\ x # c.v /\ res[x] # NoPrice THEN "price-for-unconnected-commodity"
          ELSE IF ~IsValidNorm(c.sc, g, cs, c.v, res) THEN "not-a-chain-product"
          ELSE IF res # Canon(c.sc, g, c.order, c.v) THEN "differs-from-model-bfs"
          ELSE "ok"
Init == i = 1 /\ failed = << >>
Next == /\ i <= Len(Cases)
        /\ i' = i + 1
        /\ failed' = LET w == Why(Cases[i]) IN IF w = "ok" THEN failed ELSE Append(failed, [id |-> Cases[i].id, why |-> w])
Spec == Init /\ [][Next]_<<i, failed>>
Report == i <= Len(Cases) \/ PrintT("FAILED " \o ToJson(failed))
=============================================================================
