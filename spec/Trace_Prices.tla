--------------------------- MODULE Trace_Prices ---------------------------
(* Judges results recorded from the real price.Prices (Insert*, Normalize).     *)
(* case = [id, sc, order, v, decls : Seq([c, p, t]),                             *)
(*         outs : Seq([c -> price | -1])  (distinct results of R repetitions),  *)
(*         zero : BOOLEAN (a zero price was among the inserts), zeroRejected]    *)
EXTENDS Prices, Json, TLC
Cases == ndJsonDeserialize("cases.ndjson")
VARIABLES i, failed
Why(c) ==
  LET cs == RangeOf(c.order)
      g == InsertAll(c.sc, EmptyGraph(cs), c.decls)
  IN IF c.zero THEN (IF c.zeroRejected THEN "ok" ELSE "zero-price-accepted")
     ELSE IF Len(c.outs) # 1 THEN "result-depends-on-iteration-order"
     ELSE LET res == c.outs[1] IN
          IF res[c.v] # Scale(c.sc) THEN "V-not-1"
          ELSE IF \E x \in cs \ {c.v} : g[c.v][x] # NoPrice /\ res[x] # g[c.v][x] THEN "direct-price-does-not-win"
          ELSE IF \E x \in cs : ChainVals(c.sc, g, cs, c.v, x) = {} /\ x # c.v /\ res[x] # NoPrice THEN "price-for-unconnected-commodity"
          ELSE IF ~IsValidNorm(c.sc, g, cs, c.v, res) THEN "not-a-chain-product"
          ELSE IF res # Canon(c.sc, g, c.order, c.v) THEN "differs-from-model-bfs"
          ELSE "ok"
\* ---- kind "days": journal.ComputePrices over a sequence of days (price declarations per day);
\* on a day with declarations the normalised prices are those of the graph so far, otherwise they
\* are carried forward.  c.days : Seq([decls, out]); out = the day's Normalized map.
RECURSIVE DaysOK(_, _, _, _, _)
DaysOK(c, cs, g, prev, k) ==
  IF k > Len(c.days) THEN "ok"
  ELSE LET d == c.days[k]
           g2 == InsertAll(c.sc, g, d.decls)
           want == IF d.decls # << >> THEN Canon(c.sc, g2, c.order, c.v) ELSE prev
       IN IF d.out # want THEN
             (IF d.decls # << >> /\ ~IsValidNorm(c.sc, g2, cs, c.v, d.out) THEN "day-prices-not-valid-for-the-declarations-so-far"
              ELSE IF d.decls = << >> THEN "prices-not-carried-forward" ELSE "day-prices-differ-from-model")
          ELSE DaysOK(c, cs, g2, want, k + 1)
WhyDays(c) == LET cs == RangeOf(c.order) IN
  DaysOK(c, cs, EmptyGraph(cs), [x \in cs |-> NoPrice], 1)
WhyAny(c) == IF c.kind = "days" THEN WhyDays(c) ELSE Why(c)

Init == i = 1 /\ failed = << >>
Next == /\ i <= Len(Cases)
        /\ i' = i + 1
        /\ failed' = LET w == WhyAny(Cases[i]) IN IF w = "ok" THEN failed ELSE Append(failed, [id |-> Cases[i].id, why |-> w])
Spec == Init /\ [][Next]_<<i, failed>>
Report == i <= Len(Cases) \/ PrintT("FAILED " \o ToJson(failed))
=============================================================================
