SPECIFICATION Spec
INVARIANTS NotAllAccepted
CONSTRAINT HighWater
POSTCONDITION Report
CHECK_DEADLOCK FALSE
