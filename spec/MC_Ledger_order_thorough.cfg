SPECIFICATION Spec
CONSTANTS
  MaxLen = 3
  Family = "order"
INVARIANTS AllInv
CHECK_DEADLOCK FALSE
