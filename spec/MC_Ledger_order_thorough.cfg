SPECIFICATION Spec
CONSTANTS
  MaxLen = 3
  Emit = FALSE
  Family = "order"
INVARIANTS AllInv
CHECK_DEADLOCK FALSE
