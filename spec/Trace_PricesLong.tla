------------------------- MODULE Trace_PricesLong -------------------------
(* Judges results recorded from the real price.Prices for declared prices of    *)
(* any size with up to 12 decimals (C12 beyond the 32-bit regimes).              *)
(* case = [id, order, v, decls : Seq([c, t, p, r]), outs : Seq([c -> limbs | <<-1>>])] *)
EXTENDS PricesLong, Json, TLC
Cases == ndJsonDeserialize("cases.ndjson")
VARIABLES i, failed
Why(c) ==
  LET cs == RangeOf(c.order)
      g == InsertAll(EmptyGraph(cs), c.decls)
      want == Canon(g, c.order, c.v)
  IN IF \E n \in 1..Len(c.decls) : ~IsInv(c.decls[n].p, c.decls[n].r) THEN "case-carries-a-wrong-reciprocal"
     ELSE IF Len(c.outs) # 1 THEN "result-depends-on-iteration-order"
     ELSE LET res == c.outs[1] IN
          IF ~Equal(res[c.v], One8) THEN "V-not-1"
          ELSE IF \E x \in cs : (want[x] = NoP) # (res[x] = NoP) THEN "price-for-unconnected-commodity-or-none-for-a-connected-one"
          ELSE IF \E x \in cs : want[x] # NoP /\ ~Equal(want[x], res[x]) THEN "differs-from-model-bfs"
          ELSE "ok"
Init == i = 1 /\ failed = << >>
Next == /\ i <= Len(Cases)
        /\ i' = i + 1
        /\ failed' = LET w == Why(Cases[i]) IN IF w = "ok" THEN failed ELSE Append(failed, [id |-> Cases[i].id, why |-> w])
Spec == Init /\ [][Next]_<<i, failed>>
Report == i <= Len(Cases) \/ PrintT("FAILED " \o ToJson(failed))
=============================================================================
