SPECIFICATION Spec
INVARIANTS Safe NotAllAccepted
CONSTRAINT HighWater
POSTCONDITION Report
CHECK_DEADLOCK FALSE
