SPECIFICATION Spec
CONSTANTS
  MaxDecl = 3
  Alg = "bfs"
  Emit = TRUE
INVARIANTS CaseEmit
CHECK_DEADLOCK FALSE
