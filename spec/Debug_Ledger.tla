--------------------------- MODULE Debug_Ledger ---------------------------
EXTENDS Ledger, Json, TLC
Cases == ndJsonDeserialize("cases.ndjson")
VARIABLE i
c == Cases[1]
Dump ==
  LET fin == Run(c)  dirs == Expanded(c)  ps == Periods(c, dirs) IN
  /\ PrintT(<<"periods", ps, "jmin", JMin(dirs), "jmax", JMax(dirs)>>)
  /\ PrintT(<<"failed", Failed(fin), fin.lc.err>>)
  /\ PrintT(<<"rows", RowSet(c, fin.rep)>>)
  /\ PrintT(<<"cells", {<<a, cc, k, Cell(c, fin.rep, a, cc, k)>> : a \in Accts(c), cc \in Comms(c), k \in 1..Len(ps)} \ {<<a, cc, k, 0>> : a \in Accts(c), cc \in Comms(c), k \in 1..Len(ps)}>>)
Init == i = 0 /\ Dump
Next == FALSE /\ i' = i
Spec == Init /\ [][Next]_i
=============================================================================
