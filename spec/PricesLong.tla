----------------------------- MODULE PricesLong -----------------------------
(* The price graph and its normalisation (Prices.tla) over numbers of any size  *)
(* and with up to 12 decimals (property C12 outside the two 32-bit regimes):    *)
(* every number is a little-endian sequence of base-10^4 limbs (BigNat).         *)
(*   a declared price p : limbs at scale 10^12                                   *)
(*   a normalised price : limbs at scale 10^8, or NoP                            *)
(* Insert stores the declared price as declared and its reciprocal truncated to  *)
(* 8 decimals; every step of the breadth-first normalisation multiplies the      *)
(* stored price of the edge by the price reached so far and truncates to 8       *)
(* decimals - also the first step (times 1).                                     *)
EXTENDS Integers, Sequences, FiniteSets, BigNat
NoP == <<-1>>
RangeOf(sq) == {sq[x] : x \in DOMAIN sq}
DropLimbs(a, k) == IF Len(a) <= k THEN << >> ELSE SubSeq(a, k + 1, Len(a))
One8 == <<0, 0, 1>>                       \* 1 at scale 10^8
Ten20 == <<0, 0, 0, 0, 0, 1>>             \* 10^20 = 1 at scale 10^12 times 1 at scale 10^8
\* r = 1/p truncated to 8 decimals  <=>  r * p <= 1 < (r + 1) * p
IsInv(p, r) == Leq(Mul(r, p), Ten20) /\ ~Leq(Mul(Add(r, <<1>>), p), Ten20)
\* stored price of an edge (scale 10^12) times a normalised price (scale 10^8), truncated to 8 decimals
Step(edge, val) == Norm(DropLimbs(Mul(edge, val), 3))
EmptyGraph(cs) == [t \in cs |-> [c \in cs |-> NoP]]
\* decl = [c, t, p (scale 10^12), r (scale 10^8, the claimed reciprocal)]
Insert(g, d) == [g EXCEPT ![d.t][d.c] = Norm(d.p), ![d.c][d.t] = Norm(ShiftLimbs(d.r, 1))]
RECURSIVE InsertAll(_, _)
InsertAll(g, decls) == IF decls = << >> THEN g ELSE InsertAll(Insert(g, Head(decls)), Tail(decls))
RECURSIVE BfsQ(_, _, _, _)
BfsQ(g, order, res, queue) ==
  IF queue = << >> THEN res
  ELSE LET c == Head(queue)
           ns == SelectSeq(order, LAMBDA n : g[c][n] # NoP /\ res[n] = NoP)
           res2 == [n \in DOMAIN res |-> IF n \in RangeOf(ns) THEN Step(g[c][n], res[c]) ELSE res[n]]
       IN BfsQ(g, order, res2, Tail(queue) \o ns)
Canon(g, order, V) == BfsQ(g, order, [c \in RangeOf(order) |-> IF c = V THEN One8 ELSE NoP], <<V>>)
=============================================================================
