--------------------------- MODULE MC_Calendar ---------------------------
(* Exhaustive check of the operational partition (the backward walk of          *)
(* date.NewPartition, one action per loop iteration) against the declarative     *)
(* IsPartition / AlignSpec, for every window inside Base..Base+Span, every       *)
(* interval and every `last` in Lasts.                                           *)
EXTENDS Calendar, TLC
CONSTANTS Base, Span, Lasts
VARIABLES s, e, iv, last, end, counter, acc, done
vars == <<s, e, iv, last, end, counter, acc, done>>
LastsDef == {-1, 0, 1, 2, 3, 7}

Init == /\ s \in Base..(Base + Span) /\ e \in Base..(Base + Span)
        /\ iv \in Intervals /\ last \in Lasts
        /\ end = e /\ counter = 0 /\ acc = << >> /\ done = FALSE

Once == /\ ~done /\ iv = "once"
        /\ acc' = (IF s > e THEN << >> ELSE << [s |-> s, e |-> e] >>) /\ done' = TRUE      \* (repair D30: no period for an empty window)
        /\ UNCHANGED <<s, e, iv, last, end, counter>>

LoopStep == /\ ~done /\ iv # "once"
            /\ ~(end < s \/ (last > 0 /\ counter >= last))
            /\ LET st == Max2(s, UnitStart(end, iv)) IN
                 /\ acc' = << [s |-> st, e |-> end] >> \o acc
                 /\ end' = st - 1
            /\ counter' = counter + 1
            /\ UNCHANGED <<s, e, iv, last, done>>

LoopExit == /\ ~done /\ iv # "once"
            /\ (end < s \/ (last > 0 /\ counter >= last))
            /\ done' = TRUE
            /\ UNCHANGED <<s, e, iv, last, end, counter, acc>>

Next == Once \/ LoopStep \/ LoopExit
Spec == Init /\ [][Next]_vars /\ WF_vars(Next)

PartitionOK == done => IsPartition(acc, s, e, iv, last)
AlignOK == done => \A d \in (Min2(s, e) - 8)..(Max2(s, e) + 8) : AlignCode(acc, d) = AlignSpec(acc, d)
CoverOK == (done /\ last <= 0 /\ iv # "once") => Covered(acc) = s..e
RecursiveAgrees == done => acc = Partition(s, e, iv, last)
CivilRoundTrip == LET c == Civil(s) IN DaysFromCivil(c.y, c.m, c.d) = s
Terminates == <>done
=============================================================================
