SPECIFICATION Spec
CONSTANTS
  Emit = TRUE
INVARIANTS EmitScenario
