------------------------------ MODULE Importer ------------------------------
(* Bank importers (property C13) over abstract statements.  A statement is a     *)
(* sequence of booking rows [z, amt, fee, cur]: date, signed effect on the        *)
(* import account (at scale 100), fee (formats that carry one) and currency,      *)
(* plus optionally balances [z, cur, bal] the statement itself carries.           *)
(* The importer must emit exactly one transaction per row, dated at the row's     *)
(* date, whose effect on the import account is amt - fee in cur; nothing else     *)
(* but the assertions / prices carried by the statement.                          *)
EXTENDS Integers, Sequences, FiniteSets
BagOfSeq(sq) == [x \in {sq[n] : n \in 1..Len(sq)} |-> Cardinality({n \in 1..Len(sq) : sq[n] = x})]
Expected(rows) == [n \in 1..Len(rows) |-> [z |-> rows[n].z, cur |-> rows[n].cur, eff |-> rows[n].amt - rows[n].fee]]
Faithful(rows, trx) == BagOfSeq(Expected(rows)) = BagOfSeq(trx)
\* assertions: at most one per (date, currency) carried by the statement, with the carried value
AssertionsCarried(bals, asserts) ==
  \A n \in 1..Len(asserts) : \E m \in 1..Len(bals) : bals[m] = asserts[n]
=============================================================================
