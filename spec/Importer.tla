------------------------------ MODULE Importer ------------------------------
(* Bank, broker and price importers (property C13) over abstract statements.      *)
(* A statement is a sequence of booking rows [z, amt, fee, cur, extra]: date,      *)
(* signed amount on the import account (scale 100), fee (formats that carry one), *)
(* currency, and - for brokerage rows - further effects [c, v] on the import       *)
(* account (the securities bought or sold, the other leg of a conversion, a        *)
(* commission in the base currency); plus optionally balances [z, cur, bal] and    *)
(* prices [z, p, c, t] the statement itself carries.                               *)
(* The importer must emit exactly one transaction per row, dated at the row's      *)
(* date, whose effect on the import account is amt - fee in cur (and the extra     *)
(* effects, merged per commodity); nothing else but the assertions / prices        *)
(* carried by the statement.                                                       *)
EXTENDS Integers, Sequences, FiniteSets
BagOfSeq(sq) == [x \in {sq[n] : n \in 1..Len(sq)} |-> Cardinality({n \in 1..Len(sq) : sq[n] = x})]
RECURSIVE ExtraSum(_, _, _)
ExtraSum(extra, c, n) == IF n = 0 THEN 0 ELSE (IF extra[n].c = c THEN extra[n].v ELSE 0) + ExtraSum(extra, c, n - 1)
Eff(row, c) == (IF c = row.cur THEN row.amt - row.fee ELSE 0) + ExtraSum(row.extra, c, Len(row.extra))
Effs(row) == LET cs == {row.cur} \cup {row.extra[n].c : n \in 1..Len(row.extra)}
             IN {e \in {[c |-> c, v |-> Eff(row, c)] : c \in cs} : e.v # 0}
Expected(rows) == [n \in 1..Len(rows) |-> [z |-> rows[n].z, effs |-> Effs(rows[n])]]
Observed(trx) == [n \in 1..Len(trx) |-> [z |-> trx[n].z, effs |-> {trx[n].effs[k] : k \in 1..Len(trx[n].effs)}]]
Faithful(rows, trx) == BagOfSeq(Expected(rows)) = BagOfSeq(Observed(trx))
\* assertions: at most one per (date, commodity) carried by the statement, with the carried value
AssertionsCarried(bals, asserts) ==
  \A n \in 1..Len(asserts) : \E m \in 1..Len(bals) : bals[m] = asserts[n]
\* prices: exactly the ones the statement carries
PricesCarried(prices, obs) == BagOfSeq(prices) = BagOfSeq(obs)
=============================================================================
