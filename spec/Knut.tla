-------------------------------- MODULE Knut --------------------------------
(* Composition of the accounting core (Ledger) with the pipeline discipline of   *)
(* cpr.Seq (Pipeline): the six processors of `knut balance -v V` as stages, one  *)
(* action per (stage, day), enabled exactly when the pipeline allows stage s to   *)
(* own day d (stage s-1 has released d, stage s has released d-1).  Each stage    *)
(* keeps its cross-day state; a day's transactions travel with the day.           *)
(* Checked for every interleaving: the report, the failure flag and every stage   *)
(* state at the end equal those of the sequential fold Ledger!Run - i.e. the      *)
(* output is independent of the goroutine schedule as long as the ownership       *)
(* discipline holds (which Pipeline.tla establishes and the StageDay traces of    *)
(* the real runs are validated against).                                          *)
EXTENDS Ledger, TLC
CONSTANTS CaseId
VARIABLES done, days, st
vars == <<done, days, st>>

D1 == 18259  D2 == 18260  D3 == 18262
TYK == [a \in {"Assets:A", "Assets", "Equity:Equity", "Equity", "Expenses:X", "Expenses", "Income:A", "Income", "Income:I"} |->
          CASE a \in {"Assets:A", "Assets"} -> "A" [] a \in {"Equity:Equity", "Equity"} -> "Q"
            [] a \in {"Expenses:X", "Expenses"} -> "X" [] OTHER -> "I"]
SEGK == [a \in DOMAIN TYK |->
          CASE a = "Assets:A" -> <<"Assets", "A">> [] a = "Equity:Equity" -> <<"Equity", "Equity">> [] a = "Expenses:X" -> <<"Expenses", "X">>
            [] a = "Income:A" -> <<"Income", "A">> [] a = "Income:I" -> <<"Income", "I">> [] OTHER -> << a >>]
Trx(z, cr, dr, c, q) == [k |-> "trx", z |-> z, bk |-> << [cr |-> cr, dr |-> dr, c |-> c, q |-> q] >>, acc |-> [on |-> FALSE]]
Flags(iv, close, diff) == [from |-> D1, to |-> D3, iv |-> iv, last |-> 0, diff |-> diff, close |-> close,
          acctAll |-> TRUE, accts |-> << >>, commAll |-> TRUE, commsF |-> << >>, map |-> << >>, remap |-> << >>, show |-> << >>]
Journals ==
  << \* 1: buy, revalue twice, spend; daily columns with closing
     << [k |-> "open", z |-> D1, a |-> "Assets:A"], [k |-> "open", z |-> D1, a |-> "Equity:Equity"], [k |-> "open", z |-> D1, a |-> "Expenses:X"],
        [k |-> "price", z |-> D1, c |-> "USD", p |-> 5000, t |-> "CHF"], Trx(D1, "Equity:Equity", "Assets:A", "USD", 4),
        [k |-> "price", z |-> D2, c |-> "USD", p |-> 20000, t |-> "CHF"], Trx(D2, "Assets:A", "Expenses:X", "USD", 1),
        [k |-> "price", z |-> D3, c |-> "USD", p |-> 40000, t |-> "CHF"], Trx(D3, "Assets:A", "Expenses:X", "CHF", 3) >>,
     \* 2: a missing price on the second day (the valuation stage fails there)
     << [k |-> "open", z |-> D1, a |-> "Assets:A"], [k |-> "open", z |-> D1, a |-> "Equity:Equity"],
        Trx(D1, "Equity:Equity", "Assets:A", "CHF", 7), Trx(D2, "Equity:Equity", "Assets:A", "USD", 2),
        [k |-> "price", z |-> D3, c |-> "USD", p |-> 20000, t |-> "CHF"] >> >>
Case == [qs |-> 1, ty |-> TYK, segs |-> SEGK, comms |-> <<"CHF", "USD">>, V |-> "CHF",
         journal |-> Journals[((CaseId - 1) % 2) + 1],
         flags |-> Flags(IF CaseId <= 2 THEN "daily" ELSE "once", (CaseId % 3) # 0, CaseId > 4)]
Dirs == Expanded(Case)
PS == Periods(Case, Dirs)
Extra == IF Case.flags.close THEN {PS[n].s : n \in 1..Len(PS)} ELSE {}
DL == DayList(Case, Dirs, Extra)
ND == Len(DL)
NS == 6          \* check, prices, valuate, filter, close, query

Init == /\ done = [s \in 1..NS |-> 0]
        /\ days = [d \in 1..ND |-> [trx |-> DL[d].trx, norm |-> [c \in Comms(Case) |-> NoPrice]]]
        /\ st = Init0(Case, Len(PS))
Step(s) ==
  LET d == done[s] + 1 IN
  /\ d <= ND
  /\ (IF s = 1 THEN TRUE ELSE done[s - 1] >= d)     \* the previous stage has released the day
  /\ done' = [done EXCEPT ![s] = d]
  /\ CASE s = 1 -> /\ st' = [st EXCEPT !.lc = CheckDay(Case, st.lc, [DL[d] EXCEPT !.trx = days[d].trx])]
                   /\ days' = days
       [] s = 2 -> LET p2 == PricesDay(Case, st.ps, DL[d]) IN
                   /\ st' = [st EXCEPT !.ps = p2]
                   /\ days' = [days EXCEPT ![d].norm = p2.norm]
       [] s = 3 -> LET r == IF st.ps.bad THEN [st |-> st.vs, trx |-> days[d].trx] ELSE ValuateDay(Case, st.vs, days[d].norm, days[d].trx) IN
                   /\ st' = [st EXCEPT !.vs = r.st]
                   /\ days' = [days EXCEPT ![d].trx = r.trx]
       [] s = 4 -> /\ st' = [st EXCEPT !.trace = Append(@, [z |-> DL[d].z, valued |-> days[d].trx, final |-> << >>])]
                   /\ days' = [days EXCEPT ![d].trx = FilterDay(WinS(Case, Dirs), WinE(Case, Dirs), DL[d].z, days[d].trx)]
       [] s = 5 -> LET isStart == Case.flags.close /\ \E n \in 1..Len(PS) : PS[n].s = DL[d].z
                       r == IF Case.flags.close THEN CloseDay(Case, st.cs, isStart, days[d].trx) ELSE [st |-> st.cs, trx |-> days[d].trx] IN
                   /\ st' = [st EXCEPT !.cs = r.st]
                   /\ days' = [days EXCEPT ![d].trx = r.trx]
       [] s = 6 -> /\ st' = [st EXCEPT !.rep = QueryDay(Case, PS, st.rep, DL[d].z, days[d].trx)]
                   /\ days' = days
Finished == (\A s \in 1..NS : done[s] = ND) /\ UNCHANGED vars
Next == (\E s \in 1..NS : Step(s)) \/ Finished
Spec == Init /\ [][Next]_vars /\ WF_vars(Next)

AllDone == \A s \in 1..NS : done[s] = ND
SeqRun == Run(Case)
\* every interleaving ends with the sequential result
ScheduleIndependent == AllDone =>
   /\ st.rep = SeqRun.rep /\ st.lc = SeqRun.lc /\ st.vs = SeqRun.vs /\ st.cs = SeqRun.cs
   /\ (st.lc.err.k # "none" \/ st.ps.bad \/ st.vs.err) = Failed(SeqRun)
\* the ownership discipline itself
StageOrder == \A s \in 2..NS : done[s] <= done[s - 1]
Terminates == <>AllDone
=============================================================================
