SPECIFICATION Spec
CONSTANTS
  NStages = 3
  NItems = 3
  MaxFail = 2
INVARIANTS InOrder StageOrder SingleOwner BoundedLead NoLossNoDup ErrorIsReal SuccessOnlyIfNoFailure
PROPERTY Termination
