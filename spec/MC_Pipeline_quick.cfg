SPECIFICATION Spec
CONSTANTS
  NStages = 3
  NItems = 3
  MaxFail = 2
  CancelFirst = FALSE
INVARIANTS InOrder StageOrder SingleOwner BoundedLead NoLossNoDup ErrorIsReal SuccessOnlyIfNoFailure NoWorkAfterExit
PROPERTY Termination
