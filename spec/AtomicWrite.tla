---------------------------- MODULE AtomicWrite ----------------------------
(* The in-place rewrite protocol of `knut format` / `knut infer --inplace`      *)
(* (property C18) at the level of the file-system calls seen by strace.         *)
(* Per target file:                                                             *)
(*   target : "Old" | "New" | "Bad"   content of the target path                *)
(*   temp   : "absent" | "open" | "closed"      the temporary file             *)
(*   wrote  : bytes written to the temp file     synced : fsync seen after them *)
(* An event is [op, n, ok]:                                                     *)
(*   opentemp, write (n bytes accepted), fsync, close, chmod, rename (temp ->   *)
(*   target), unlink (temp), wtarget (the target itself opened for writing or   *)
(*   truncated - never part of the protocol).                                   *)
(* NewLen = length of the complete new contents.                                *)
EXTENDS Integers, Sequences, FiniteSets

Init0 == [target |-> "Old", temp |-> "absent", wrote |-> 0, synced |-> FALSE, renamed |-> FALSE]

\* effect of one observed/performed call; a failed call (ok = FALSE) changes nothing,
\* except that a failed write may have accepted n bytes before failing
Step(st, ev, newLen) ==
  CASE ev.op = "opentemp" -> IF ev.ok THEN [st EXCEPT !.temp = "open", !.wrote = 0, !.synced = FALSE] ELSE st
    [] ev.op = "write"    -> [st EXCEPT !.wrote = @ + ev.n, !.synced = IF ev.n > 0 THEN FALSE ELSE @]
    [] ev.op = "fsync"    -> IF ev.ok THEN [st EXCEPT !.synced = TRUE] ELSE st
    [] ev.op = "close"    -> IF st.temp = "open" THEN [st EXCEPT !.temp = "closed"] ELSE st
    [] ev.op = "chmod"    -> st
    [] ev.op = "rename"   -> IF ~ev.ok THEN st
                             ELSE [st EXCEPT !.temp = "absent", !.renamed = TRUE,
                                    !.target = IF st.temp # "absent" /\ st.wrote = newLen /\ st.synced THEN "New" ELSE "Bad"]
    [] ev.op = "unlink"   -> IF ev.ok THEN [st EXCEPT !.temp = "absent"] ELSE st
    [] ev.op = "wtarget"  -> IF ev.ok THEN [st EXCEPT !.target = "Bad"] ELSE st
    [] OTHER -> st

\* the property: at every instant the target holds its complete previous or complete new contents
TargetIntact(st) == st.target \in {"Old", "New"}

RECURSIVE Fold(_, _, _)
Fold(st, evs, newLen) == IF evs = << >> THEN st ELSE Fold(Step(st, Head(evs), newLen), Tail(evs), newLen)
\* every prefix of the event sequence leaves the target intact
RECURSIVE AlwaysIntact(_, _, _)
AlwaysIntact(st, evs, newLen) ==
  TargetIntact(st) /\ (evs = << >> \/ AlwaysIntact(Step(st, Head(evs), newLen), Tail(evs), newLen))
=============================================================================
