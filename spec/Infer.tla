------------------------------- MODULE Infer -------------------------------
(* `knut infer` (property C15): the edit relation between the formatted target   *)
(* journal and the output, and the choice of the replacement account.            *)
(*   P          the placeholder account                                          *)
(*   cands      accounts occurring in training bookings that do not touch P      *)
(*   before/after : Seq([cr, dr]) the bookings of the target, in order           *)
EXTENDS Integers, Sequences, FiniteSets

\* what the result of one booking may be
BookingOK(P, cands, b, a) ==
  LET crSet == cands \ {b.dr}                          \* candidates for the credit side
      cr2 == a.cr
      drSet == cands \ {cr2}                           \* the debit side must differ from the (new) credit side
  IN /\ IF b.cr = P THEN (IF crSet = {} THEN a.cr = P ELSE a.cr \in crSet) ELSE a.cr = b.cr
     /\ IF b.dr = P THEN (IF drSet = {} THEN a.dr = P ELSE a.dr \in drSet) ELSE a.dr = b.dr
     /\ (a.cr # P /\ a.dr # P /\ (b.cr = P \/ b.dr = P)) => a.cr # a.dr
Allowed(P, cands, before, after) ==
  /\ Len(before) = Len(after)
  /\ \A n \in 1..Len(before) : BookingOK(P, cands, before[n], after[n])
\* nothing but placeholder tokens changes (tokens of the formatted input vs the output)
OnlyPlaceholdersReplaced(P, tin, tout) ==
  /\ Len(tin) = Len(tout)
  /\ \A k \in 1..Len(tin) : tin[k] = tout[k] \/ tin[k] = P
\* the placeholder is replaced in bookings only (not where the same text occurs in comments, descriptions, open /
\* close / balance directives or annotations): as many tokens change as booking sides change
ChangedTokens(tin, tout) == Cardinality({k \in 1..Len(tin) : tin[k] # tout[k]})
ChangedSides(before, after) == Cardinality({k \in 1..Len(before) : before[k].cr # after[k].cr}) + Cardinality({k \in 1..Len(before) : before[k].dr # after[k].dr})
OnlyInBookings(tin, tout, before, after) ==
  Len(tin) = Len(tout) /\ Len(before) = Len(after) => ChangedTokens(tin, tout) = ChangedSides(before, after)
=============================================================================
