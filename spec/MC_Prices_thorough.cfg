SPECIFICATION Spec
CONSTANTS
  MaxDecl = 4
  Alg = "bfs"
  Emit = FALSE
INVARIANTS Valid Deterministic
CHECK_DEADLOCK FALSE
