--------------------------- MODULE MC_Lifecycle ---------------------------
(* Exhaustive enumeration of small journals (every multiset of directives from   *)
(* a menu, up to MaxLen, in canonical processing order) with the acceptance       *)
(* invariant of C04: the operational lifecycle fold (the code-shaped checker)     *)
(* accepts exactly the journals the declarative reading of the property accepts.  *)
(* With Emit = TRUE every journal is also printed with the model's verdict, for   *)
(* replay into the real checker (generation config).                              *)
EXTENDS Ledger, Json, TLC
CONSTANTS MaxLen, NDays, Emit
VARIABLES journal
Base == 18290

TY == [a \in {"Assets:A", "Assets", "Equity:Equity", "Equity", "Expenses:X", "Expenses", "Income:A", "Income", "Liabilities:A", "Liabilities"} |->
        CASE a \in {"Assets:A", "Assets"} -> "A" [] a \in {"Liabilities:A", "Liabilities"} -> "L"
          [] a \in {"Equity:Equity", "Equity"} -> "Q" [] a \in {"Expenses:X", "Expenses"} -> "X" [] OTHER -> "I"]
SEGS == [a \in DOMAIN TY |-> << a >>]     \* segments are irrelevant for the lifecycle
DaysM == Base..(Base + NDays - 1)
UsedAccts == {"Assets:A", "Equity:Equity", "Expenses:X"}
CommsM == {"CHF", "USD"}

Menu ==
     {[k |-> "open", z |-> z, a |-> a] : z \in DaysM, a \in UsedAccts}
\cup {[k |-> "close", z |-> z, a |-> a] : z \in DaysM, a \in UsedAccts}
\cup {[k |-> "trx", z |-> z, bk |-> << [cr |-> x[1], dr |-> x[2], c |-> c, q |-> q] >>, acc |-> [on |-> FALSE]] :
         z \in DaysM, x \in {<<"Equity:Equity", "Assets:A">>, <<"Assets:A", "Expenses:X">>}, c \in CommsM, q \in {1, 2}}
\cup {[k |-> "assert", z |-> z, bal |-> << [a |-> "Assets:A", c |-> c, q |-> q] >>] :
         z \in DaysM, c \in CommsM, q \in {0, 1, 2}}

KindRank(k) == CASE k = "open" -> 1 [] k = "trx" -> 2 [] k = "assert" -> 3 [] k = "close" -> 4
Rank(d) == (d.z - Base) * 10 + KindRank(d.k)

MkCase(j) == [qs |-> 1, ty |-> TY, segs |-> SEGS, comms |-> <<"CHF", "USD">>, V |-> "", journal |-> j]

Init == journal = << >>
Next == /\ Len(journal) < MaxLen
        /\ \E d \in Menu :
             /\ (IF journal = << >> THEN TRUE ELSE Rank(journal[Len(journal)]) <= Rank(d))
             /\ journal' = Append(journal, d)
Spec == Init /\ [][Next]_journal

Verdict(j) == Lifecycle(MkCase(j)).err.k = "none"
AcceptIffRef == Verdict(journal) = RefAccepted(MkCase(journal))
\* positions of closed accounts are forgotten, open/close alternate: a journal accepted
\* up to a prefix stays decided by that prefix (rejection is permanent in processing order)
RejectionPermanent == [][~Verdict(journal) => ~Verdict(journal')]_journal
EmitCase == ~Emit \/ PrintT("CASE " \o ToJson([j |-> journal, ok |-> Verdict(journal), err |-> Lifecycle(MkCase(journal)).err]))
=============================================================================
