SPECIFICATION Spec
CONSTANTS
  MaxLen = 3
  NDays = 2
  Emit = TRUE
INVARIANT EmitCase
CHECK_DEADLOCK FALSE
