SPECIFICATION Spec
CONSTANTS
  MaxLen = 3
  MaxOps = 2
  Emit = TRUE
INVARIANTS EmitCase
CHECK_DEADLOCK FALSE
