SPECIFICATION Spec
CONSTANTS
  NewLen = 6
  Design = "atomic"
INVARIANTS Intact NewOnlyByRename NoLitterOnError SuccessMeansNew FailureMeansOld
PROPERTY Completes
CHECK_DEADLOCK FALSE
