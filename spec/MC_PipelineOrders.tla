------------------------- MODULE MC_PipelineOrders -------------------------
(* Generator of schedules for directed replay (C19): Pipeline.tla extended with the   *)
(* history of its Work steps.  Every terminal state is printed once: the order in which *)
(* the processor callbacks ran, the result, and what every stage processed.  The       *)
(* harness forces the real pipeline (Gate hook) through each printed order.            *)
EXTENDS Integers, Sequences, FiniteSets, Json, TLC
CONSTANTS NStages, NItems, FailS, FailN
VARIABLES pc, hold, ret, cancelled, firstErr, closed, sinkRes, out, failSet, processed, failedRun, order
P == INSTANCE Pipeline WITH MaxFail <- 1, CancelFirst <- FALSE
pvars == <<pc, hold, ret, cancelled, firstErr, closed, sinkRes, out, failSet, processed, failedRun>>
Fs == IF FailS = 0 THEN {} ELSE {<<FailS, FailN>>}
Init == P!InitWith(Fs) /\ order = << >>
Next == \/ P!Silent /\ UNCHANGED order
        \/ \E s \in P!Stages : P!Work(s) /\ order' = Append(order, <<s, hold[s]>>)
Spec == Init /\ [][Next]_<<pvars, order>>
Emit == ~P!AllDone \/ PrintT("CASE " \o ToJson([of |-> NStages, nd |-> NItems, fs |-> FailS, fn |-> FailN, order |-> order,
                                                 res |-> firstErr.k, errw |-> firstErr.w,
                                                 done |-> [s \in P!Stages |-> Len(processed[s])]]))
=============================================================================
