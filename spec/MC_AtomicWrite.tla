--------------------------- MODULE MC_AtomicWrite ---------------------------
(* The write protocol as a state machine with an adversarial environment: every *)
(* call may fail (short write / EFBIG at any byte, EIO on fsync, ...), and the   *)
(* process may be killed before any call.  Design = "atomic": natefinch/atomic   *)
(* as used by knut (temp file, write, fsync, close, chmod, rename; unlink on     *)
(* error).  Design = "inplace": open(target, O_TRUNC), write, close - the        *)
(* innocent-looking alternative (os.WriteFile), which violates TargetIntact at   *)
(* the first crash point.  Design = "nosync": rename without fsync.              *)
EXTENDS AtomicWrite, TLC
CONSTANTS NewLen, Design
VARIABLES st, pc, alive, failed
vars == <<st, pc, alive, failed>>

Init == st = Init0 /\ pc = "start" /\ alive = TRUE /\ failed = FALSE
Do(op, n, ok) == st' = Step(st, [op |-> op, n |-> n, ok |-> ok], NewLen)

\* ---- natefinch/atomic.WriteFile
OpenTemp == /\ alive /\ pc = "start" /\ Design \in {"atomic", "nosync"}
            /\ \/ Do("opentemp", 0, TRUE) /\ pc' = "write" /\ UNCHANGED failed
               \/ Do("opentemp", 0, FALSE) /\ pc' = "done" /\ failed' = TRUE
            /\ UNCHANGED alive
Write == /\ alive /\ pc = "write"
         /\ \/ \E k \in 1..(NewLen - st.wrote) : Do("write", k, TRUE) /\ pc' = (IF st.wrote + k = NewLen THEN "fsync" ELSE "write") /\ UNCHANGED failed
            \/ \E k \in 0..(NewLen - st.wrote - 1) : Do("write", k, FALSE) /\ pc' = "cleanup" /\ failed' = TRUE    \* short write, then EFBIG/ENOSPC
         /\ UNCHANGED alive
Fsync == /\ alive /\ pc = "fsync"
         /\ IF Design = "nosync" THEN st' = st /\ pc' = "close" /\ UNCHANGED failed
            ELSE \/ Do("fsync", 0, TRUE) /\ pc' = "close" /\ UNCHANGED failed
                 \/ Do("fsync", 0, FALSE) /\ pc' = "cleanup" /\ failed' = TRUE
         /\ UNCHANGED alive
Close == /\ alive /\ pc = "close" /\ Do("close", 0, TRUE) /\ pc' = "chmod" /\ UNCHANGED <<alive, failed>>
Chmod == /\ alive /\ pc = "chmod"
         /\ \/ Do("chmod", 0, TRUE) /\ pc' = "rename" /\ UNCHANGED failed
            \/ Do("chmod", 0, FALSE) /\ pc' = "cleanup" /\ failed' = TRUE
         /\ UNCHANGED alive
Rename == /\ alive /\ pc = "rename"
          /\ \/ Do("rename", 0, TRUE) /\ pc' = "done" /\ UNCHANGED failed
             \/ Do("rename", 0, FALSE) /\ pc' = "cleanup" /\ failed' = TRUE
          /\ UNCHANGED alive
Cleanup == /\ alive /\ pc = "cleanup" /\ Do("close", 0, TRUE) /\ pc' = "unlink" /\ UNCHANGED <<alive, failed>>
Unlink == /\ alive /\ pc = "unlink" /\ Do("unlink", 0, TRUE) /\ pc' = "done" /\ UNCHANGED <<alive, failed>>

\* ---- os.WriteFile(target)
TruncTarget == /\ alive /\ pc = "start" /\ Design = "inplace" /\ Do("wtarget", 0, TRUE) /\ pc' = "wtarget" /\ UNCHANGED <<alive, failed>>
WriteTarget == /\ alive /\ pc = "wtarget"
               /\ \/ st' = [st EXCEPT !.wrote = NewLen, !.target = "New"] /\ pc' = "done" /\ UNCHANGED failed
                  \/ st' = st /\ pc' = "done" /\ failed' = TRUE
               /\ UNCHANGED alive

Crash == alive /\ pc # "done" /\ alive' = FALSE /\ UNCHANGED <<st, pc, failed>>
Next == OpenTemp \/ Write \/ Fsync \/ Close \/ Chmod \/ Rename \/ Cleanup \/ Unlink \/ TruncTarget \/ WriteTarget \/ Crash
Spec == Init /\ [][Next]_vars /\ WF_vars(Next)

Intact == TargetIntact(st)
\* the target becomes New only through a rename of a complete, synced temp file
NewOnlyByRename == st.target = "New" => st.renamed
\* a command that returns an error leaves no temp file behind (not required after a kill)
NoLitterOnError == (alive /\ pc = "done" /\ failed) => st.temp = "absent"
\* a run without faults ends with the new contents
Completes == <>(~alive \/ pc = "done")
SuccessMeansNew == (alive /\ pc = "done" /\ ~failed) => st.target = "New"
FailureMeansOld == (alive /\ pc = "done" /\ failed) => st.target = "Old"
=============================================================================
