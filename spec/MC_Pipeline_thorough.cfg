SPECIFICATION Spec
CONSTANTS
  NStages = 5
  NItems = 5
  MaxFail = 2
INVARIANTS InOrder StageOrder SingleOwner BoundedLead NoLossNoDup ErrorIsReal SuccessOnlyIfNoFailure
PROPERTY Termination
