SPECIFICATION Spec
CONSTANTS
  NStages = 4
  NItems = 4
  MaxFail = 1
  CancelFirst = FALSE
INVARIANTS InOrder StageOrder SingleOwner BoundedLead NoLossNoDup ErrorIsReal SuccessOnlyIfNoFailure NoWorkAfterExit
PROPERTY Termination
