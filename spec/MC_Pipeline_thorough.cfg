SPECIFICATION Spec
CONSTANTS
  NStages = 5
  NItems = 5
  MaxFail = 2
  CancelFirst = FALSE
INVARIANTS InOrder StageOrder SingleOwner BoundedLead NoLossNoDup ErrorIsReal SuccessOnlyIfNoFailure NoWorkAfterExit
PROPERTY Termination
