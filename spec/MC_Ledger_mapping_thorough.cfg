SPECIFICATION Spec
CONSTANTS
  MaxLen = 3
  Emit = FALSE
  Family = "mapping"
INVARIANTS AllInv
CHECK_DEADLOCK FALSE
