SPECIFICATION Spec
CONSTANTS
  MaxLen = 3
  Family = "mapping"
INVARIANTS AllInv
CHECK_DEADLOCK FALSE
