SPECIFICATION Spec
CONSTANTS
  Span = 13
  Quantities <- QuantQuick
INVARIANTS SpecHolds CodeShapedFails CodeShapedOKWithoutEquity
CHECK_DEADLOCK FALSE
