------------------------- MODULE Trace_LoaderSteps -------------------------
(* Step-by-step validation of recorded loads (journal.FromPath) against         *)
(* Loader.tla.  runs.ndjson: one line per command run of the real knut (verif    *)
(* hooks): [id, n : files seen, inc : Seq(Seq(file)) (who includes whom, root =  *)
(*  1), bad : Seq("ok" | "syntax" | "model"), ok : the load succeeded,           *)
(*  ev : Seq([k, f])]  with k = "done" (FileDone: ParseDone(f)), "conv" /         *)
(* "convfail" (Converted / ConvertFailed: Convert(f)), "added" (Added: W3Recv,   *)
(* the file is not logged and inferred).  Task creation (Spawn), channel         *)
(* offers, receives, cancellations, closes and the pool's result are unlogged.   *)
(* A run is accepted when some behaviour of Loader.tla performs exactly the      *)
(* logged steps in the logged order and ends with the observed result.           *)
EXTENDS Integers, Sequences, FiniteSets, Json, TLC
Runs == ndJsonDeserialize("runs.ndjson")
NF == CHOOSE m \in 1..64 : (\A k \in 1..Len(Runs) : Runs[k].n <= m) /\ (\E k \in 1..Len(Runs) : Runs[k].n = m)
VARIABLES inc, bad, task, gerr, gcancel, sch, w2, conv, ierr, icancel, mch, w3, added, w1, result, r, l
L == INSTANCE Loader WITH NFiles <- NF, MaxFail <- 2, Drain <- TRUE
tvars == <<inc, bad, task, gerr, gcancel, sch, w2, conv, ierr, icancel, mch, w3, added, w1, result, r, l>>
SetOf(sq) == {sq[k] : k \in 1..Len(sq)}
IncOf(n) == [f \in 1..NF |-> IF f <= Runs[n].n THEN SetOf(Runs[n].inc[f]) ELSE {}]
BadOf(n) == [f \in 1..NF |-> IF f <= Runs[n].n THEN Runs[n].bad[f] ELSE "ok"]
Init == TLCSet(1, 0) /\ L!InitWith(IncOf(1), BadOf(1)) /\ r = 1 /\ l = 1
Ev == Runs[r].ev
Event == /\ r <= Len(Runs) /\ l <= Len(Ev)
         /\ LET e == Ev[l] IN
            CASE e.k = "done" -> L!ParseDone(e.f)
              [] e.k = "conv" -> bad[e.f] # "model" /\ L!Convert(e.f)
              [] e.k = "convfail" -> bad[e.f] = "model" /\ L!Convert(e.f)
              [] e.k = "added" -> L!W3Recv
              [] OTHER -> FALSE
         /\ l' = l + 1 /\ UNCHANGED r
Silent == /\ r <= Len(Runs)
          /\ (L!Silent \/ \E f, g \in 1..NF : L!Spawn(f, g))
          /\ UNCHANGED <<r, l>>
RunAccepted == /\ r <= Len(Runs) /\ l = Len(Ev) + 1 /\ result # "pending"
               /\ (result = "ok") = Runs[r].ok
Reset == /\ RunAccepted
         /\ r' = r + 1 /\ l' = 1
         /\ inc' = IF r + 1 <= Len(Runs) THEN IncOf(r + 1) ELSE inc
         /\ bad' = IF r + 1 <= Len(Runs) THEN BadOf(r + 1) ELSE bad
         /\ task' = [f \in 1..NF |-> IF f = 1 THEN "parsing" ELSE "none"]
         /\ gerr' = "none" /\ gcancel' = FALSE /\ sch' = 0
         /\ w1' = "running" /\ w2' = "pop" /\ w3' = "pop"
         /\ conv' = [f \in 1..NF |-> "none"]
         /\ ierr' = "none" /\ icancel' = FALSE /\ mch' = 0 /\ added' = {} /\ result' = "pending"
Next == Event \/ Silent \/ Reset
Spec == Init /\ [][Next]_tvars
NotAllAccepted == r <= Len(Runs)
HighWater == IF TLCGet(1) < 100000 * r + l THEN TLCSet(1, 100000 * r + l) ELSE TRUE
Report == PrintT("HIGHWATER " \o ToString(TLCGet(1)))
=============================================================================
