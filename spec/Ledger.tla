------------------------------- MODULE Ledger -------------------------------
(* The accounting core of knut as pure operators over a journal ("case"):       *)
(*   lifecycle check  ->  prices  ->  valuation  ->  window filter  ->  period  *)
(*   closing  ->  query into the report  ->  rendered cells.                    *)
(* Each processor of lib/journal/process.go is one operator                     *)
(* (stage state, day) -> (stage state, day); Run folds them over the days.       *)
(* MC_Ledger drives the same operators one action per stage per day.             *)
(* Properties: C01 (Delta = 0), C02 (cells = declarative sums), C03 (mark to     *)
(* market), C04 (acceptance), used by C05 C09 C16 C20.                           *)
(*                                                                              *)
(* case = [qs, ty, segs, comms, V, journal, flags, ...]                          *)
(*   qs      quantity scale (units per 1); valued cases need qs = 1             *)
(*   ty      account name -> "A" | "L" | "Q" | "I" | "X"                        *)
(*   segs    account name -> sequence of segments                                *)
(*   journal sequence of directives                                              *)
(*     [k |-> "open"|"close", z, a]   [k |-> "price", z, c, p, t]  (p at scale S)*)
(*     [k |-> "trx", z, bk : Seq([cr, dr, c, q]), acc : [on, iv, s, e, a]]       *)
(*     [k |-> "assert", z, bal : Seq([a, c, q])]                                 *)
EXTENDS Accrual

S == 10000                       \* price / value scale
NoPrice == -1
SetOf(sq) == {sq[x] : x \in DOMAIN sq}
Accts(case) == DOMAIN case.ty
Comms(case) == SetOf(case.comms)
\* (a * b) / S truncated, a, b >= 0, without leaving 32 bits
MulS(a, b) == (a \div S) * b + ((a % S) * b) \div S

Join(ss) == FoldLeft(LAMBDA acc, s : IF acc = "" THEN s ELSE acc \o ":" \o s, "", ss)
ValAcct(case, a) == Join(<<"Income">> \o Tail(case.segs[a]))

\* ---------------------------------------------------------------- journal -> days
Expanded(case) ==
  FlattenSeq([i \in 1..Len(case.journal) |->
    LET d == case.journal[i] IN
    IF d.k = "trx"
    THEN LET t == [z |-> d.z, post |-> PostingsOf(d.bk)] IN
         IF d.acc.on
         THEN LET ex == Expand(case.ty, t, d.acc, case.qs, "spec")
              IN [j \in 1..Len(ex) |-> [k |-> "trx", z |-> ex[j].z, post |-> ex[j].post, gen |-> "accrual"]]
         ELSE << [k |-> "trx", z |-> d.z, post |-> t.post, gen |-> "user"] >>
    ELSE << d >>])

AccrualsExact(case) ==
  \A i \in 1..Len(case.journal) :
    LET d == case.journal[i] IN
    (d.k = "trx" /\ d.acc.on) =>
       ExpandExact(case.ty, [z |-> d.z, post |-> PostingsOf(d.bk)], d.acc, case.qs)

Kind(dirs, k, z) == SelectSeq(dirs, LAMBDA d : d.k = k /\ d.z = z)
SortedDays(zs) == SetToSortSeq(zs, LAMBDA a, b : a < b)

FarFuture == 2932896             \* 9999-12-31, journal.New()'s initial min
\* Builder.Add: min over transactions only; max over transactions and prices
JMin(dirs) == LET zs == {dirs[i].z : i \in {j \in 1..Len(dirs) : dirs[j].k = "trx"}}
              IN IF zs = {} THEN FarFuture ELSE CHOOSE z \in zs : \A y \in zs : z <= y
JMax(dirs) == LET zs == {dirs[i].z : i \in {j \in 1..Len(dirs) : dirs[j].k \in {"trx", "price"}}}
              IN IF zs = {} THEN -719162 ELSE CHOOSE z \in zs : \A y \in zs : z >= y

\* the report window: --from/--to clipped to the journal's own period
WinS(case, dirs) == Max2(case.flags.from, JMin(dirs))
WinE(case, dirs) == Min2(case.flags.to, JMax(dirs))
Periods(case, dirs) == Partition(WinS(case, dirs), WinE(case, dirs), case.flags.iv, case.flags.last)

\* day records in processing order; CloseAccounts creates the period-start days
DayList(case, dirs, extra) ==
  LET zs == {dirs[i].z : i \in 1..Len(dirs)} \cup extra
      sz == SortedDays(zs)
  IN [n \in 1..Len(sz) |->
        [z |-> sz[n],
         prices  |-> Kind(dirs, "price", sz[n]),
         opens   |-> Kind(dirs, "open", sz[n]),
         trx     |-> LET ts == Kind(dirs, "trx", sz[n]) IN [m \in 1..Len(ts) |-> ts[m].post],
         asserts |-> Kind(dirs, "assert", sz[n]),
         closes  |-> Kind(dirs, "close", sz[n])]]

\* ---------------------------------------------------------------- stage 0: check (C04)
NoErr == [k |-> "none", z |-> 0, a |-> "", why |-> ""]
ZeroAC(case) == [a \in Accts(case) |-> [c \in Comms(case) |-> 0]]
LC0(case) == [open |-> {}, qty |-> ZeroAC(case), err |-> NoErr]
Fail(st, k, z, a, why) == [st EXCEPT !.err = [k |-> k, z |-> z, a |-> a, why |-> why]]
Guard(st, f(_)) == IF st.err.k # "none" THEN st ELSE f(st)

LCOpen(st, d) == Guard(st, LAMBDA s :
  IF d.a \in s.open THEN Fail(s, "open", d.z, d.a, "already open") ELSE [s EXCEPT !.open = @ \cup {d.a}])

LCPosting(case, st, z, p) == Guard(st, LAMBDA s :
  IF p.a \notin s.open THEN Fail(s, "trx", z, p.a, "not open")
  ELSE IF IsAL(case.ty, p.a) THEN [s EXCEPT !.qty[p.a][p.c] = @ + p.q] ELSE s)

\* an assertion on an asset/liability account must equal the running quantity,
\* a position that never existed counting as zero (property text)
LCBalance(case, st, z, b) == Guard(st, LAMBDA s :
  IF b.a \notin s.open THEN Fail(s, "assert", z, b.a, "not open")
  ELSE IF IsAL(case.ty, b.a) /\ s.qty[b.a][b.c] # b.q THEN Fail(s, "assert", z, b.a, "failed assertion")
  ELSE s)

LCClose(case, st, d) == Guard(st, LAMBDA s :
  IF IsAL(case.ty, d.a) /\ \E c \in Comms(case) : s.qty[d.a][c] # 0 THEN Fail(s, "close", d.z, d.a, "nonzero position")
  ELSE IF d.a \notin s.open THEN Fail(s, "close", d.z, d.a, "not open")
  ELSE [s EXCEPT !.open = @ \ {d.a}, !.qty[d.a] = [c \in Comms(case) |-> 0]])

CheckDay(case, st, day) ==
  LET s1 == FoldLeft(LAMBDA s, d : LCOpen(s, d), st, day.opens)
      s2 == FoldLeft(LAMBDA s, t : FoldLeft(LAMBDA s0, p : LCPosting(case, s0, day.z, p), s, t), s1, day.trx)
      s3 == FoldLeft(LAMBDA s, d : FoldLeft(LAMBDA s0, b : LCBalance(case, s0, d.z, b), s, d.bal), s2, day.asserts)
      s4 == FoldLeft(LAMBDA s, d : LCClose(case, s, d), s3, day.closes)
  IN s4

Lifecycle(case) ==
  LET dirs == Expanded(case) IN
  FoldLeft(LAMBDA s, day : CheckDay(case, s, day), LC0(case), DayList(case, dirs, {}))

\* Declarative reference for acceptance (C04), written from the property text without
\* the fold: directive j (in processing order) is fine iff ... evaluated on the ordered list.
Ordered(case) ==
  LET dirs == Expanded(case)
      days == DayList(case, dirs, {})
  IN FlattenSeq([n \in 1..Len(days) |->
        days[n].opens \o Kind(dirs, "trx", days[n].z) \o days[n].asserts \o days[n].closes])

\* open status of account a just before position j of the ordered list
IsOpenBefore(ord, a, j) ==
  LET evs == {i \in 1..(j - 1) : ord[i].k \in {"open", "close"} /\ ord[i].a = a}
  IN evs # {} /\ ord[CHOOSE i \in evs : \A m \in evs : m <= i].k = "open"
\* running quantity of (a, c) before position j, counting from the last close of a
RunningBefore(ord, a, c, j) ==
  LET cl == {i \in 1..(j - 1) : ord[i].k = "close" /\ ord[i].a = a}
      from == IF cl = {} THEN 0 ELSE CHOOSE i \in cl : \A m \in cl : m <= i
  IN SumOver([i \in 1..(j - 1) |->
        IF i > from /\ ord[i].k = "trx"
        THEN SumOver(ord[i].post, LAMBDA p : IF p.a = a /\ p.c = c THEN p.q ELSE 0)
        ELSE 0], LAMBDA x : x)
DirectiveOK(case, ord, j) ==
  LET d == ord[j] IN
  CASE d.k = "open"   -> ~IsOpenBefore(ord, d.a, j)
    [] d.k = "trx"    -> \A n \in 1..Len(d.post) : IsOpenBefore(ord, d.post[n].a, j)
    [] d.k = "assert" -> \A n \in 1..Len(d.bal) :
                            /\ IsOpenBefore(ord, d.bal[n].a, j)
                            /\ IsAL(case.ty, d.bal[n].a) => RunningBefore(ord, d.bal[n].a, d.bal[n].c, j) = d.bal[n].q
    [] d.k = "close"  -> /\ IsOpenBefore(ord, d.a, j)
                         /\ IsAL(case.ty, d.a) => \A c \in Comms(case) : RunningBefore(ord, d.a, c, j) = 0
    [] OTHER -> TRUE
RefAccepted(case) == LET ord == Ordered(case) IN \A j \in 1..Len(ord) : DirectiveOK(case, ord, j)

\* ---------------------------------------------------------------- stage 1: prices
EmptyGraph(case) == [t \in Comms(case) |-> [c \in Comms(case) |-> NoPrice]]
InsertPrice(g, c, p, t) == [g EXCEPT ![t][c] = p, ![c][t] = TruncDiv(S * S, p)]
RECURSIVE BFS(_, _, _, _)
BFS(g, cs, res, frontier) ==
  IF frontier = {} THEN res
  ELSE LET new == {n \in cs : res[n] = NoPrice /\ \E f \in frontier : g[f][n] # NoPrice}
           pick(n) == CHOOSE f \in frontier : g[f][n] # NoPrice
           res2 == [n \in cs |-> IF n \in new THEN MulS(g[pick(n)][n], res[pick(n)]) ELSE res[n]]
       IN BFS(g, cs, res2, new)
Normalize(g, cs, V) == BFS(g, cs, [c \in cs |-> IF c = V THEN S ELSE NoPrice], {V})

PricesDay(case, st, day) ==
  LET g2 == FoldLeft(LAMBDA g, pr : InsertPrice(g, pr.c, pr.p, pr.t), st.g, day.prices)
      bad == st.bad \/ \E i \in 1..Len(day.prices) : day.prices[i].p = 0
      norm2 == IF Len(day.prices) > 0 /\ ~bad THEN Normalize(g2, Comms(case), case.V) ELSE st.norm
  IN [g |-> IF bad THEN st.g ELSE g2, norm |-> norm2, bad |-> bad]

\* ---------------------------------------------------------------- stage 2: valuate
ALKeys(case) == {k \in Accts(case) \X Comms(case) : IsAL(case.ty, k[1])}
AdjTrx(case, st, norm) ==
  LET ks == {k \in ALKeys(case) : k[2] # case.V /\ st.qty[k[1]][k[2]] # 0 /\ norm[k[2]] # st.prev[k[2]]}
      sk == SetToSeq(ks)
  IN [i \in 1..Len(sk) |->
        LET a == sk[i][1]  c == sk[i][2]
            gain == (norm[c] - st.prev[c]) * st.qty[a][c]
        IN Pair(ValAcct(case, a), a, c, 0, gain)]
ValuatePosting(case, norm, p) ==
  IF p.q = 0 THEN p
  ELSE IF p.c = case.V THEN [p EXCEPT !.v = p.q * S]
  ELSE [p EXCEPT !.v = p.q * norm[p.c]]
MissingPrice(case, norm, trx) ==
  \E i \in 1..Len(trx) : \E j \in 1..Len(trx[i]) :
      LET p == trx[i][j] IN p.q # 0 /\ p.c # case.V /\ norm[p.c] = NoPrice
ValuateDay(case, st, norm, trx0) ==
  LET trx1 == trx0 \o AdjTrx(case, st, norm)
      miss == MissingPrice(case, norm, trx1)
      trx2 == IF miss THEN trx1
              ELSE [i \in 1..Len(trx1) |-> [j \in 1..Len(trx1[i]) |-> ValuatePosting(case, norm, trx1[i][j])]]
      qty2 == FoldLeft(LAMBDA q, p : IF p.q # 0 /\ IsAL(case.ty, p.a) THEN [q EXCEPT ![p.a][p.c] = @ + p.q] ELSE q,
                       st.qty, FlattenSeq(trx2))
  IN [st |-> [prev |-> norm, qty |-> qty2, err |-> st.err \/ miss], trx |-> trx2]

\* ---------------------------------------------------------------- stage 3: filter
FilterDay(ws, we, z, trx) == IF ws <= z /\ z <= we THEN trx ELSE << >>

\* ---------------------------------------------------------------- stage 4: close
\* period closing restarts the income and expense rows only; equity accounts other than Equity:Equity are permanent
IsNominal(case, a) == case.ty[a] \in {"I", "X"}
CloseDay(case, st, isStart, trx) ==
  LET ks == {k \in Accts(case) \X Comms(case) : IsNominal(case, k[1]) /\ (st.q[k[1]][k[2]] # 0 \/ st.v[k[1]][k[2]] # 0)}
      sk == SetToSeq(ks)
      closing == IF isStart
                 THEN [i \in 1..Len(sk) |-> Pair(sk[i][1], "Equity:Equity", sk[i][2], st.q[sk[i][1]][sk[i][2]], st.v[sk[i][1]][sk[i][2]])]
                 ELSE << >>
      trx2 == trx \o closing
      allp == FlattenSeq(trx2)
      acc(m, f(_)) == FoldLeft(LAMBDA x, p : IF IsNominal(case, p.a) THEN [x EXCEPT ![p.a][p.c] = @ + f(p)] ELSE x, m, allp)
  IN [st |-> [q |-> acc(st.q, LAMBDA p : p.q), v |-> acc(st.v, LAMBDA p : p.v)], trx |-> trx2]

\* ---------------------------------------------------------------- stage 5: query
SwapHead(h) == CASE h = "Assets" -> "Liabilities" [] h = "Liabilities" -> "Assets"
                 [] h = "Income" -> "Expenses" [] h = "Expenses" -> "Income" [] OTHER -> h
Remap(case, a) == IF a \in SetOf(case.flags.remap)
                  THEN Join(<<SwapHead(case.segs[a][1])>> \o Tail(case.segs[a])) ELSE a
\* first matching rule wins; "" = hidden
RECURSIVE ShortenBy(_, _, _)
ShortenBy(case, rules, a) ==
  IF rules = << >> THEN a
  ELSE LET r == Head(rules)  sg == case.segs[a]  n == Len(sg) IN
       IF ~(r.all \/ a \in SetOf(r.match)) THEN ShortenBy(case, Tail(rules), a)
       ELSE IF r.level = 0 THEN ""
       ELSE IF r.suffix >= n \/ r.level > n - r.suffix THEN a
       ELSE Join(SubSeq(sg, 1, r.level) \o SubSeq(sg, n - r.suffix + 1, n))
MapAcct(case, a) == ShortenBy(case, case.flags.map, Remap(case, a))
Passes(case, p) == /\ (case.flags.acctAll \/ p.a \in SetOf(case.flags.accts))
                   /\ (case.flags.commAll \/ p.c \in SetOf(case.flags.commsF))
ColOf(ps, z) == LET idx == {i \in 1..Len(ps) : ps[i].e >= z}
                IN IF idx = {} THEN 0 ELSE CHOOSE i \in idx : \A j \in idx : i <= j
\* rep = [cells: [col -> [acct -> [comm -> Int]]], hidden: same but keyed by column/comm only, rows: set of accts]
QueryDay(case, ps, rep, z, trx) ==
  FoldLeft(LAMBDA r, p :
     LET col == ColOf(ps, z)  m == MapAcct(case, p.a)
         amt == IF case.V = "" THEN p.q ELSE p.v IN
     IF col = 0 \/ ~Passes(case, p) THEN r
     ELSE IF m = "" THEN [r EXCEPT !.hidden[col][p.c] = @ + amt]
     ELSE [r EXCEPT !.cells[col][m][p.c] = @ + amt, !.rows = @ \cup {m}],
   rep, FlattenSeq(trx))

\* ---------------------------------------------------------------- the whole run
Init0(case, np) ==
  [lc |-> LC0(case),
   ps |-> [g |-> EmptyGraph(case), norm |-> [c \in Comms(case) |-> NoPrice], bad |-> FALSE],
   vs |-> [prev |-> [c \in Comms(case) |-> NoPrice], qty |-> ZeroAC(case), err |-> FALSE],
   cs |-> [q |-> ZeroAC(case), v |-> ZeroAC(case)],
   rep |-> [cells |-> [i \in 1..np |-> ZeroAC(case)],
            hidden |-> [i \in 1..np |-> [c \in Comms(case) |-> 0]], rows |-> {}],
   trace |-> << >>]

StepDay(case, ps, ws, we, s, day) ==
  LET valued == case.V # ""
      lc2 == CheckDay(case, s.lc, day)
      p2 == IF valued THEN PricesDay(case, s.ps, day) ELSE s.ps
      r2 == IF valued /\ ~p2.bad THEN ValuateDay(case, s.vs, p2.norm, day.trx) ELSE [st |-> s.vs, trx |-> day.trx]
      t3 == FilterDay(ws, we, day.z, r2.trx)
      isStart == case.flags.close /\ \E i \in 1..Len(ps) : ps[i].s = day.z
      r4 == IF case.flags.close THEN CloseDay(case, s.cs, isStart, t3) ELSE [st |-> s.cs, trx |-> t3]
  IN [lc |-> lc2, ps |-> p2, vs |-> r2.st, cs |-> r4.st,
      rep |-> QueryDay(case, ps, s.rep, day.z, r4.trx),
      trace |-> Append(s.trace, [z |-> day.z, valued |-> r2.trx, final |-> r4.trx])]

Run(case) ==
  LET dirs == Expanded(case)
      ps == Periods(case, dirs)
      ws == WinS(case, dirs)  we == WinE(case, dirs)
      extra == IF case.flags.close THEN {ps[i].s : i \in 1..Len(ps)} ELSE {}
  IN FoldLeft(LAMBDA s, d : StepDay(case, ps, ws, we, s, d), Init0(case, Len(ps)), DayList(case, dirs, extra))

Failed(fin) == fin.lc.err.k # "none" \/ fin.ps.bad \/ fin.vs.err

\* ---------------------------------------------------------------- rendered cells
IsALRow(case, a) == IsAL(case.ty, a)
RawCell(case, rep, a, c, k) ==
  IF case.flags.diff THEN rep.cells[k][a][c]
  ELSE SumOver([i \in 1..k |-> rep.cells[i][a][c]], LAMBDA x : x)
Cell(case, rep, a, c, k) == IF IsALRow(case, a) THEN RawCell(case, rep, a, c, k) ELSE -RawCell(case, rep, a, c, k)
ValuedCell(case, rep, a, k) == SumOver(SetToSeq(Comms(case)), LAMBDA c : Cell(case, rep, a, c, k))
TotalRaw(case, rep, al, c, k) ==
  SumOver(SetToSeq({a \in Accts(case) : IsALRow(case, a) = al}), LAMBDA a : RawCell(case, rep, a, c, k))
HiddenRaw(case, rep, c, k) ==
  IF case.flags.diff THEN rep.hidden[k][c] ELSE SumOver([i \in 1..k |-> rep.hidden[i][c]], LAMBDA x : x)
DeltaCell(case, rep, c, k) == TotalRaw(case, rep, TRUE, c, k) + TotalRaw(case, rep, FALSE, c, k)

\* rows shown: inserted accounts and their ancestors
RowSet(case, rep) ==
  UNION {{Join(SubSeq(case.segs[a], 1, n)) : n \in 1..Len(case.segs[a])} : a \in rep.rows}

\* ---------------------------------------------------------------- declarative references
\* C02: a cell is the sum of the signed booked quantities of the commodity on the account(s)
\* mapped onto the row, over bookings inside the window up to the column date.  Written over
\* the expanded journal directly (no stages); valid for unvalued reports without --close.
RefCellNoClose(case, a, c, k) ==
  LET dirs == Expanded(case)
      ps == Periods(case, dirs)
      ws == WinS(case, dirs)  we == WinE(case, dirs)
      lo == IF case.flags.diff THEN (IF k = 1 THEN ws ELSE ps[k].s) ELSE ws
      hi == ps[k].e
      sgn == IF IsALRow(case, a) THEN 1 ELSE -1
  IN sgn * SumOver(dirs, LAMBDA d :
       IF d.k = "trx" /\ ws <= d.z /\ d.z <= we /\ lo <= d.z /\ d.z <= hi
       THEN SumOver(d.post, LAMBDA p : IF p.c = c /\ Passes(case, p) /\ MapAcct(case, p.a) = a THEN p.q ELSE 0)
       ELSE 0)

\* C03: mark-to-market reference: sum over positions of quantity x latest price <= date
LatestNorm(case, z) ==
  LET dirs == Expanded(case)
      days == DayList(case, dirs, {})
      upto == SelectSeq(days, LAMBDA d : d.z <= z)
  IN FoldLeft(LAMBDA s, d : PricesDay(case, s, d),
              [g |-> EmptyGraph(case), norm |-> [c \in Comms(case) |-> NoPrice], bad |-> FALSE], upto).norm
QtyUpTo(case, a, c, z) ==
  SumOver(Expanded(case), LAMBDA d :
     IF d.k = "trx" /\ d.z <= z THEN SumOver(d.post, LAMBDA p : IF p.a = a /\ p.c = c THEN p.q ELSE 0) ELSE 0)
RefMTM(case, a, z) ==
  LET norm == LatestNorm(case, z) IN
  SumOver(SetToSeq(Comms(case)), LAMBDA c :
     LET q == QtyUpTo(case, a, c, z) IN
     IF q = 0 THEN 0 ELSE IF c = case.V THEN q * S ELSE q * norm[c])
=============================================================================
