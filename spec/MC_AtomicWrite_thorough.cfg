SPECIFICATION Spec
CONSTANTS
  NewLen = 24
  Design = "atomic"
INVARIANTS Intact NewOnlyByRename NoLitterOnError SuccessMeansNew FailureMeansOld
PROPERTY Completes
CHECK_DEADLOCK FALSE
