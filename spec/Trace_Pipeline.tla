--------------------------- MODULE Trace_Pipeline ---------------------------
(* Validates traces recorded by the `verif` hooks of the real knut (StageDay    *)
(* events of cpr.Seq via Journal.Process; FileStart/FileDone/Converted/Added    *)
(* events of the loader) against the ordering and census properties that        *)
(* Pipeline.tla and Loader.tla establish for every behaviour:                   *)
(*   InOrder / StageOrder / BoundedLead / NoLossNoDup / ErrorIsReal / AllStop.  *)
(* case = [id, exit, timedOut, race, ctxErr (stderr shows "context canceled"),   *)
(*   runs : Seq([of, nd, ev : Seq([s, d, err, ntrx])]),    one per Process call  *)
(*   files : expected number of loaded files, started, done, failedFiles,        *)
(*   synOK (sum FileDone.n of ok files), synConv, modConv, modAdded,             *)
(*   expectFail : the input contains a failing file or stage,                    *)
(*   trxExpected : number of transactions in all files (-1 = unknown),           *)
(*   stepsOK : every complete Process call was accepted step by step by          *)
(*   Trace_PipelineSteps (a behaviour of Pipeline.tla performs exactly the       *)
(*   logged Work steps in the logged order and ends with the observed result),   *)
(*   loadOK : likewise for the recorded load against Loader.tla                  *)
(*   (Trace_LoaderSteps), for include trees of up to 10 files,                    *)
(*   forced : [on, abandoned, followed, sameOut] - directed replay: the run was   *)
(*   driven (Gate hook) through an order of Work steps that TLC generated from    *)
(*   Pipeline.tla (MC_PipelineOrders); it must have followed it and given the     *)
(*   result of the unforced reference run]                                        *)
EXTENDS Integers, Sequences, FiniteSets, Json, TLC
Cases == ndJsonDeserialize("cases.ndjson")
VARIABLES i, failed

Before(ev, k, s, d) == \E j \in 1..(k - 1) : ev[j].s = s /\ ev[j].d = d
FirstErr(ev) == LET es == {k \in 1..Len(ev) : ev[k].err} IN IF es = {} THEN 0 ELSE CHOOSE k \in es : \A m \in es : k <= m
WhyRun(r) ==
  LET ev == r.ev  fe == FirstErr(ev) IN
  IF \E k \in 1..Len(ev) : ev[k].s \notin 1..r.of \/ ev[k].d \notin 1..r.nd THEN "event-out-of-range"
  ELSE IF \E j, k \in 1..Len(ev) : j < k /\ ev[j].s = ev[k].s /\ ev[j].d = ev[k].d THEN "day-processed-twice-by-a-stage"
  ELSE IF \E k \in 1..Len(ev) : ev[k].d > 1 /\ ~Before(ev, k, ev[k].s, ev[k].d - 1) THEN "stage-saw-days-out-of-order"
  ELSE IF \E k \in 1..Len(ev) : ev[k].s > 1 /\ ~Before(ev, k, ev[k].s - 1, ev[k].d) THEN "stage-overtook-its-predecessor"
  ELSE IF \E k \in 1..Len(ev) : ev[k].s < r.of /\ ev[k].d > 2 /\ ~Before(ev, k, ev[k].s + 1, ev[k].d - 2) THEN "channel-not-a-rendezvous"
  ELSE IF fe = 0 /\ Len(ev) # r.of * r.nd THEN "day-lost-without-error"
  ELSE "ok"
Why(c) ==
  LET badRuns == {n \in 1..Len(c.runs) : WhyRun(c.runs[n]) # "ok"}
      anyErr == \E n \in 1..Len(c.runs) : FirstErr(c.runs[n].ev) # 0
  IN IF c.timedOut THEN "hang"
     ELSE IF c.race THEN "data-race"
     ELSE IF badRuns # {} THEN WhyRun(c.runs[CHOOSE n \in badRuns : \A m \in badRuns : n <= m])
     ELSE IF ~c.stepsOK THEN "run-is-not-a-behaviour-of-Pipeline.tla"
     ELSE IF ~c.loadOK THEN "load-is-not-a-behaviour-of-Loader.tla"
     ELSE IF c.forced.on /\ ~c.forced.abandoned /\ ~c.forced.followed THEN "forced-schedule-not-followed"
     ELSE IF c.forced.on /\ ~c.forced.sameOut THEN "result-under-a-forced-schedule-differs-from-the-reference-run"
     ELSE IF anyErr /\ c.exit = 0 THEN "success-although-a-stage-failed"
     ELSE IF c.expectFail /\ c.exit = 0 THEN "success-although-the-input-is-broken"
     ELSE IF c.exit # 0 /\ c.ctxErr THEN "reported-context-canceled-instead-of-the-stage-error"
     ELSE IF ~c.expectFail /\ c.exit # 0 THEN "failure-on-a-sound-input"
     ELSE IF c.started # c.done THEN "file-task-did-not-finish"
     ELSE IF c.exit = 0 /\ (c.done # c.files \/ c.failedFiles # 0) THEN "file-lost-or-duplicated"
     ELSE IF c.exit = 0 /\ (c.synOK # c.synConv \/ c.modConv # c.modAdded) THEN "directive-lost-or-duplicated-in-the-loader"
     ELSE IF c.exit = 0 /\ c.trxExpected >= 0 /\ Len(c.runs) > 0
             /\ (LET r == c.runs[1] IN
                 c.trxExpected # LET xs == [k \in 1..Len(r.ev) |-> IF r.ev[k].s = 1 THEN r.ev[k].ntrx ELSE 0]
                                     sum[n \in 0..Len(xs)] == IF n = 0 THEN 0 ELSE sum[n - 1] + xs[n]
                                 IN sum[Len(xs)]) THEN "transaction-lost-or-duplicated"
     ELSE "ok"
Init == i = 1 /\ failed = << >>
Next == /\ i <= Len(Cases)
        /\ i' = i + 1
        /\ failed' = LET w == Why(Cases[i]) IN IF w = "ok" THEN failed ELSE Append(failed, [id |-> Cases[i].id, why |-> w])
Spec == Init /\ [][Next]_<<i, failed>>
Report == i <= Len(Cases) \/ PrintT("FAILED " \o ToJson(failed))
=============================================================================
