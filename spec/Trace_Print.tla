---------------------------- MODULE Trace_Print ----------------------------
(* C09: `knut print` emits a normal form that round-trips.                      *)
(* case = the Ledger case of the original journal (ty, segs, comms, qs, journal) *)
(*  + obs = [accepted, exit1, check2, p1, p2 (hash ids of the two printouts),    *)
(*           bal1, bal2 : Seq(hash id) (balance reports of original / printed),  *)
(*           printed : Seq([z, kind])]                                           *)
EXTENDS Ledger, Json, TLC
Cases == ndJsonDeserialize("cases.ndjson")
VARIABLES i, failed
KindRank(k) == CASE k = "price" -> 1 [] k = "open" -> 2 [] k = "trx" -> 3 [] k = "assert" -> 4 [] k = "close" -> 5 [] OTHER -> 9
NormalForm(pr) == \A n \in 1..(Len(pr) - 1) :
                     pr[n].z < pr[n + 1].z \/ (pr[n].z = pr[n + 1].z /\ KindRank(pr[n].kind) <= KindRank(pr[n + 1].kind))
CountOf(sq, z, k) == Cardinality({n \in 1..Len(sq) : sq[n].z = z /\ sq[n].k = k})
CountOfP(sq, z, k) == Cardinality({n \in 1..Len(sq) : sq[n].z = z /\ sq[n].kind = k})
\* hand-written journals (no abstract journal behind them): the round trip is judged on the observations alone
WhyText(c) ==
  IF ~c.obs.accepted THEN "ok"
  ELSE IF c.obs.exit1 # 0 THEN "print-failed"
  ELSE IF ~c.obs.check2 THEN "printed-journal-is-not-accepted"
  ELSE IF c.obs.p1 # c.obs.p2 THEN "print-is-not-a-fixpoint"
  ELSE IF c.obs.bal1 # c.obs.bal2 THEN "balance-report-changed-by-printing"
  ELSE IF ~NormalForm(c.obs.printed) THEN "not-in-normal-form"
  ELSE "ok"
WhyModel(c) ==
  LET ok == Lifecycle(c).err.k = "none"
      ex == Expanded(c)
      keys == {<<ex[n].z, ex[n].k>> : n \in 1..Len(ex)} \cup {<<c.obs.printed[n].z, c.obs.printed[n].kind>> : n \in 1..Len(c.obs.printed)}
  IN IF ok # c.obs.accepted THEN "verdict-differs-from-model"
     ELSE IF ~ok THEN "ok"                                        \* the property speaks about accepted journals
     ELSE IF c.obs.exit1 # 0 THEN "print-failed"
     ELSE IF ~c.obs.check2 THEN "printed-journal-is-not-accepted"
     ELSE IF c.obs.p1 # c.obs.p2 THEN "print-is-not-a-fixpoint"
     ELSE IF c.obs.bal1 # c.obs.bal2 THEN "balance-report-changed-by-printing"
     ELSE IF ~NormalForm(c.obs.printed) THEN "not-in-normal-form"
     \* the printed directives are exactly the model's expanded journal (accrual parts included), per day and kind
     ELSE IF \E key \in keys : CountOf(ex, key[1], key[2]) # CountOfP(c.obs.printed, key[1], key[2]) THEN "directive-lost-or-duplicated"
     ELSE "ok"
Why(c) == IF c.kind = "text" THEN WhyText(c) ELSE WhyModel(c)
Init == i = 1 /\ failed = << >>
Next == /\ i <= Len(Cases)
        /\ i' = i + 1
        /\ failed' = LET w == Why(Cases[i]) IN IF w = "ok" THEN failed ELSE Append(failed, [id |-> Cases[i].id, why |-> w])
Spec == Init /\ [][Next]_<<i, failed>>
Report == i <= Len(Cases) \/ PrintT("FAILED " \o ToJson(failed))
=============================================================================
