SPECIFICATION Spec
CONSTANTS
  MaxLen = 4
  NDays = 2
  Emit = TRUE
INVARIANT EmitCase
CHECK_DEADLOCK FALSE
