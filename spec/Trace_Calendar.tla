-------------------------- MODULE Trace_Calendar --------------------------
(* Judges observations recorded from the real date.NewPartition / Align /       *)
(* Contains (and from the column headers of `knut balance`) against Calendar.   *)
EXTENDS Calendar, Json, TLC
Cases == ndJsonDeserialize("cases.ndjson")
VARIABLES i, failed

JudgeLib(c) ==
  LET ps == c.periods IN
  /\ IsPartition(ps, c.s, c.e, c.iv, c.last)
  /\ ps = Partition(c.s, c.e, c.iv, c.last)                  \* the model's expected list
  /\ (c.last <= 0 /\ c.iv # "once" /\ c.s <= c.e) => Covered(ps) = c.s .. c.e
  /\ \A k \in 1..Len(c.align) : AlignSpec(ps, c.align[k].d) = c.align[k].r
  /\ \A k \in 1..Len(c.contains) : SpanContains(c.s, c.e, c.contains[k].d) = c.contains[k].r

\* CLI: window = (from,to) clipped to the journal's own period (jmin, jmax);
\* the column headers must be the end dates of the expected partition.
JudgeCli(c) ==
  LET s == Max2(c.from, c.jmin)
      e == Min2(c.to, c.jmax)
      ps == Partition(s, e, c.iv, c.last)
  IN /\ IsPartition(ps, s, e, c.iv, c.last)
     /\ c.cols = [k \in 1..Len(ps) |-> ps[k].e]

Judge(c) == IF c.kind = "lib" THEN JudgeLib(c) ELSE JudgeCli(c)

Init == i = 1 /\ failed = << >>
Next == /\ i <= Len(Cases)
        /\ i' = i + 1
        /\ failed' = IF Judge(Cases[i]) THEN failed ELSE Append(failed, [id |-> Cases[i].id, why |-> "partition"])
Spec == Init /\ [][Next]_<<i, failed>>
Report == i <= Len(Cases) \/ PrintT("FAILED " \o ToJson(failed))
=============================================================================
