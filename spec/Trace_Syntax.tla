---------------------------- MODULE Trace_Syntax ----------------------------
(* C07: the syntax tree returned by the real parser is a lossless cover of the   *)
(* text.  case = [id, len, ok, panicked, timedOut,                                *)
(*   nodes : Seq([s, e, p, same]) (every range of the tree, p = index of the      *)
(*           enclosing element or 0, same = its text is the parsed text),         *)
(*   dirs : Seq([s, e]) (top-level directives), file : [s, e],                    *)
(*   gaps : Seq(Seq(line class)) (text outside the directives, split in lines:    *)
(*           "blank" | "comment" | "other"),                                      *)
(*   err : [s, e, rendered, foreign]]                                             *)
EXTENDS Integers, Sequences, FiniteSets, Json, TLC
Cases == ndJsonDeserialize("cases.ndjson")
VARIABLES i, failed
Why(c) ==
  IF c.panicked THEN "panic"
  ELSE IF c.timedOut THEN "does-not-terminate"
  ELSE IF ~c.ok THEN
       (IF ~(0 <= c.err.s /\ c.err.s <= c.err.e /\ c.err.e <= c.len) THEN "error-position-outside-the-input"
        ELSE IF ~c.err.rendered THEN "error-cannot-be-rendered"
        ELSE IF c.err.foreign THEN "error-position-is-not-a-position-in-the-input" ELSE "ok")
  ELSE IF c.file.s # 0 \/ c.file.e # c.len THEN "file-range-is-not-the-whole-text"
  ELSE IF \E n \in 1..Len(c.nodes) : ~(0 <= c.nodes[n].s /\ c.nodes[n].s <= c.nodes[n].e /\ c.nodes[n].e <= c.len) THEN "range-outside-the-text"
  ELSE IF \E n \in 1..Len(c.nodes) : ~c.nodes[n].same THEN "element-text-is-not-the-parsed-text"
  ELSE IF \E n \in 1..Len(c.nodes) : c.nodes[n].p # 0 /\ c.nodes[n].e > c.nodes[n].s
            /\ ~(c.nodes[c.nodes[n].p].s <= c.nodes[n].s /\ c.nodes[n].e <= c.nodes[c.nodes[n].p].e) THEN "child-outside-its-parent"
  ELSE IF \E n \in 1..(Len(c.dirs) - 1) : c.dirs[n].e > c.dirs[n + 1].s THEN "directives-overlap-or-out-of-order"
  ELSE IF \E n \in 1..Len(c.dirs) : c.dirs[n].s >= c.dirs[n].e THEN "empty-directive"
  ELSE IF \E g \in 1..Len(c.gaps) : \E l \in 1..Len(c.gaps[g]) : c.gaps[g][l] \notin {"blank", "comment"} THEN "text-outside-directives-is-not-whitespace-or-comment"
  ELSE "ok"
Init == i = 1 /\ failed = << >>
Next == /\ i <= Len(Cases)
        /\ i' = i + 1
        /\ failed' = LET w == Why(Cases[i]) IN IF w = "ok" THEN failed ELSE Append(failed, [id |-> Cases[i].id, why |-> w])
Spec == Init /\ [][Next]_<<i, failed>>
Report == i <= Len(Cases) \/ PrintT("FAILED " \o ToJson(failed))
=============================================================================
