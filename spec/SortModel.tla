----------------------------- MODULE SortModel -----------------------------
(* Output order taken from a hash map (property C06): elements are collected   *)
(* in map-iteration order (any order) and sorted with a comparator by an         *)
(* unstable sort.  The output is a function of the input iff the comparator      *)
(* never reports two distinct elements as equal.                                 *)
(*   Cmp = "weight"      : balance.Report.SortWeighted as it was (defect D3:     *)
(*                         an unvalued report gives every row weight 0);         *)
(*   Cmp = "weight+name" : with the alphabetical tie-break (repaired).           *)
(* Elements are [name, weight].  The unstable sort is modelled by choosing any   *)
(* permutation consistent with the comparator.                                   *)
EXTENDS Integers, Sequences, FiniteSets, TLC
CONSTANTS Names, Weights, Cmp
VARIABLES elems, picked, out, phase
vars == <<elems, picked, out, phase>>

Less(a, b) == IF Cmp = "weight" THEN a.weight < b.weight
              ELSE a.weight < b.weight \/ (a.weight = b.weight /\ a.name < b.name)
\* names are small integers here so that TLC can compare them
Init == /\ elems \in {s \in SUBSET [name : Names, weight : Weights] :
                        \A x, y \in s : x.name = y.name => x = y}
        /\ picked = << >> /\ out = << >> /\ phase = "iterate"
\* for k, v := range m  -- any element not yet visited
Iterate == /\ phase = "iterate"
           /\ \E e \in elems \ {picked[n] : n \in 1..Len(picked)} : picked' = Append(picked, e)
           /\ UNCHANGED <<elems, out, phase>>
IterDone == /\ phase = "iterate" /\ Len(picked) = Cardinality(elems)
            /\ phase' = "sort" /\ UNCHANGED <<elems, picked, out>>
\* sort.Slice: some arrangement of the collected elements in which no later element is Less than an earlier one;
\* elements the comparator calls equal may end up in any order (here: insertion at any admissible position)
RECURSIVE Insertions(_, _)
Insertions(sq, e) == {[n \in 1..(Len(sq) + 1) |-> IF n < k THEN sq[n] ELSE IF n = k THEN e ELSE sq[n - 1]] :
                         k \in {k \in 1..(Len(sq) + 1) : (\A m \in 1..(k - 1) : ~Less(e, sq[m])) /\ (\A m \in k..Len(sq) : ~Less(sq[m], e))}}
SortStep == /\ phase = "sort" /\ Len(out) < Len(picked)
            /\ out' \in Insertions(out, picked[Len(out) + 1])
            /\ UNCHANGED <<elems, picked, phase>>
SortDone == /\ phase = "sort" /\ Len(out) = Len(picked) /\ phase' = "done" /\ UNCHANGED <<elems, picked, out>>
Next == Iterate \/ IterDone \/ SortStep \/ SortDone
Spec == Init /\ [][Next]_vars

\* the canonical output: sorted by (weight, name)
CanonLess(a, b) == a.weight < b.weight \/ (a.weight = b.weight /\ a.name < b.name)
IsCanon(sq) == \A m, n \in 1..Len(sq) : m < n => CanonLess(sq[m], sq[n])
Deterministic == phase = "done" => IsCanon(out)
Sorted == phase = "done" => \A m, n \in 1..Len(out) : m < n => ~Less(out[n], out[m])
=============================================================================
