SPECIFICATION Spec
CONSTANTS
  MaxLen = 3
  MaxOps = 3
  Emit = FALSE
INVARIANTS InText RangesOK Progress EofSticky
CHECK_DEADLOCK FALSE
