SPECIFICATION Spec
CONSTANTS
  CaseId = 4
INVARIANTS ScheduleIndependent StageOrder
PROPERTY Terminates
