SPECIFICATION Spec
CONSTANTS
  CaseId = 6
INVARIANTS ScheduleIndependent StageOrder
PROPERTY Terminates
