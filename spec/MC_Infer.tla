------------------------------ MODULE MC_Infer ------------------------------
(* The choice of the replacement as the code makes it: argmax of a score over    *)
(* the candidates, visited in map order (any order) with a strict comparison -   *)
(* the first maximal candidate met wins.  Scores are booking counts here (ties   *)
(* are what matters).  Ordered = TRUE: candidates visited in name order (the     *)
(* repaired code); Ordered = FALSE: Go map order (defect D8).                     *)
EXTENDS Infer, TLC
CONSTANTS Ordered
VARIABLES training, target, visited, best, result, phase
vars == <<training, target, visited, best, result, phase>>
Accts == {1, 2, 3}            \* account names as integers (TLC can order them)
P == 9
Bookings == {[cr |-> x, dr |-> y] : x \in Accts, y \in Accts} \ {[cr |-> x, dr |-> x] : x \in Accts}
Cands == {b.cr : b \in training} \cup {b.dr : b \in training}
Count(a) == Cardinality({b \in training : b.cr = a \/ b.dr = a})
Init == /\ training \in {t \in SUBSET Bookings : Cardinality(t) <= 2}
        /\ target \in {[cr |-> P, dr |-> y] : y \in Accts} \cup {[cr |-> x, dr |-> P] : x \in Accts} \cup {[cr |-> P, dr |-> P]}
        /\ visited = {} /\ best = 0 /\ result = target /\ phase = "credit"
Other == IF phase = "credit" THEN target.dr ELSE result.cr
Eligible == Cands \ {Other}
Visit == /\ phase \in {"credit", "debit"}
         /\ (IF phase = "credit" THEN target.cr ELSE target.dr) = P
         /\ visited # Eligible
         /\ \E c \in Eligible \ visited :
              /\ (Ordered => \A d \in Eligible \ visited : c <= d)
              /\ visited' = visited \cup {c}
              /\ best' = IF best = 0 \/ Count(c) > Count(best) THEN c ELSE best
         /\ UNCHANGED <<training, target, result, phase>>
Done == /\ phase \in {"credit", "debit"}
        /\ ((IF phase = "credit" THEN target.cr ELSE target.dr) # P \/ visited = Eligible)
        /\ result' = IF (IF phase = "credit" THEN target.cr ELSE target.dr) = P /\ best # 0
                     THEN (IF phase = "credit" THEN [result EXCEPT !.cr = best] ELSE [result EXCEPT !.dr = best])
                     ELSE result
        /\ phase' = IF phase = "credit" THEN "debit" ELSE "done"
        /\ visited' = {} /\ best' = 0
        /\ UNCHANGED <<training, target>>
Next == Visit \/ Done
Spec == Init /\ [][Next]_vars
ResultAllowed == phase = "done" => Allowed(P, Cands, <<target>>, <<result>>)
\* the canonical choice: the smallest name among the candidates with maximal count
Canon(other) == LET el == Cands \ {other} IN
                IF el = {} THEN P ELSE CHOOSE c \in el : \A d \in el : Count(c) > Count(d) \/ (Count(c) = Count(d) /\ c <= d)
SameEveryRun == phase = "done" =>
   LET cr == IF target.cr = P THEN Canon(target.dr) ELSE target.cr
       dr == IF target.dr = P THEN Canon(cr) ELSE target.dr
   IN result = [cr |-> cr, dr |-> dr]
=============================================================================
