SPECIFICATION Spec
CONSTANTS
  CaseId = 5
INVARIANTS ScheduleIndependent StageOrder
PROPERTY Terminates
