------------------------------ MODULE Accrual ------------------------------
(* Posting pairs and @accrue expansion (property C10; used by Ledger).          *)
(* Quantities are integers at scale qs (units per 1).  A booking is             *)
(* [cr, dr, c, q]; a posting is [a, o, c, q, v].                                *)
EXTENDS Calendar, SequencesExt

TruncDiv(a, b) == IF a >= 0 THEN a \div b ELSE -((-a) \div b)     \* toward zero (b > 0)
Abs(x) == IF x < 0 THEN -x ELSE x

\* Types are passed explicitly (a function from account name to type letter) to keep
\* TLC away from string slicing: ty[a] \in {"A","L","Q","I","X"}.
IsAL(ty, a) == ty[a] \in {"A", "L"}
IsIE(ty, a) == ty[a] \in {"I", "X"}

\* posting.Builder.Build: negative quantity (or zero quantity and negative value) swaps sides
Pair(cr, dr, c, q, v) ==
  LET swap == q < 0 \/ (q = 0 /\ v < 0)
      cr2 == IF swap THEN dr ELSE cr
      dr2 == IF swap THEN cr ELSE dr
      q2  == IF swap THEN -q ELSE q
      v2  == IF swap THEN -v ELSE v
  IN << [a |-> cr2, o |-> dr2, c |-> c, q |-> -q2, v |-> -v2],
        [a |-> dr2, o |-> cr2, c |-> c, q |-> q2,  v |-> v2] >>

PostingsOf(bookings) ==
  FlattenSeq([i \in 1..Len(bookings) |->
     Pair(bookings[i].cr, bookings[i].dr, bookings[i].c, bookings[i].q, 0)])

\* decimal.QuoRem(q, n, 1): quotient truncated (toward zero) to one decimal place.
\* At scale qs >= 10 the quotient is a multiple of qs/10; at qs = 1 it is representable
\* only if it happens to be an integer (exact = FALSE otherwise: outside the regime).
QuoRem1(q, n, qs) ==
  IF qs >= 10
  THEN LET u == qs \div 10
           a == TruncDiv(q, u * n) * u
       IN [a |-> a, r |-> q - a * n, exact |-> TRUE]
  ELSE LET t == TruncDiv(10 * q, n)
           a == TruncDiv(t, 10)
       IN [a |-> a, r |-> q - a * n, exact |-> (t = a * 10)]

\* ---- expansion -----------------------------------------------------------------
\* t = [z, post]; acc = [iv, s, e, a]; result: sequence of [z, post, part, of]
\* (part/of = the "(accrual i/n)" suffix, 0/0 for the non-split legs).
\* mode "spec": every leg that is not income/expense keeps its date (property text);
\* mode "code": only asset/liability legs do and equity legs vanish (defect D2, kept for the record).
ExpandPosting(ty, p, z, acc, qs, mode) ==
  IF IsIE(ty, p.a)
  THEN LET ps == Partition(acc.s, acc.e, acc.iv, 0)
           n  == Len(ps)
           qr == QuoRem1(p.q, n, qs)
       IN [i \in 1..n |->
             [z |-> ps[i].e, part |-> i, of |-> n,
              post |-> Pair(acc.a, p.a, p.c, IF i = 1 THEN qr.a + qr.r ELSE qr.a, 0)]]
  ELSE IF IsAL(ty, p.a) \/ mode = "spec"
  THEN << [z |-> z, part |-> 0, of |-> 0, post |-> Pair(acc.a, p.a, p.c, p.q, 0)] >>
  ELSE << >>

Expand(ty, t, acc, qs, mode) ==
  FlattenSeq([j \in 1..Len(t.post) |-> ExpandPosting(ty, t.post[j], t.z, acc, qs, mode)])

ExpandExact(ty, t, acc, qs) ==
  \A j \in 1..Len(t.post) :
     IsIE(ty, t.post[j].a) =>
        QuoRem1(t.post[j].q, Len(Partition(acc.s, acc.e, acc.iv, 0)), qs).exact

\* ---- the four clauses of C10 as predicates over an expansion ---------------------
SumOver(seq, f(_)) == FoldLeft(LAMBDA x, y : x + f(y), 0, seq)
AllPostings(ts) == FlattenSeq([i \in 1..Len(ts) |-> ts[i].post])
Booked(posts, a, c) == SumOver(posts, LAMBDA p : IF p.a = a /\ p.c = c THEN p.q ELSE 0)

EachBalances(ts) ==
  \A i \in 1..Len(ts) : \A c \in {ts[i].post[k].c : k \in 1..Len(ts[i].post)} :
     SumOver(ts[i].post, LAMBDA p : IF p.c = c THEN p.q ELSE 0) = 0

ConservesOthers(ty, orig, ts, acc) ==
  LET op == orig.post
      np == AllPostings(ts)
      accts == {op[k].a : k \in 1..Len(op)} \cup {np[k].a : k \in 1..Len(np)}
      comms == {op[k].c : k \in 1..Len(op)} \cup {np[k].c : k \in 1..Len(np)}
  IN \A a \in accts \ {acc.a} : \A c \in comms : Booked(np, a, c) = Booked(op, a, c)

\* "the accrual account nets to zero": over everything generated, apart from what the
\* original transaction itself booked on that account.
AccrualNetsToZero(orig, ts, acc) ==
  LET np == AllPostings(ts)
      comms == {np[k].c : k \in 1..Len(np)}
  IN \A c \in comms : Booked(np, acc.a, c) = Booked(orig.post, acc.a, c)

DatesRight(ty, orig, ts, acc) ==
  LET ps == Partition(acc.s, acc.e, acc.iv, 0) IN
  \A i \in 1..Len(ts) :
     LET t == ts[i]
         other == IF t.post[1].a = acc.a THEN t.post[2].a ELSE t.post[1].a
     IN IF IsIE(ty, other) /\ t.of > 0
        THEN t.of = Len(ps) /\ t.part \in 1..Len(ps) /\ t.z = ps[t.part].e
        ELSE t.z = orig.z

\* for every I/E leg of the original: exactly one part per period
SplitOverExactlyThePeriods(ty, orig, ts, acc) ==
  LET ps == Partition(acc.s, acc.e, acc.iv, 0)
      nIE == Cardinality({j \in 1..Len(orig.post) : IsIE(ty, orig.post[j].a)})
  IN \A k \in 1..Len(ps) :
       Cardinality({i \in 1..Len(ts) : ts[i].of > 0 /\ ts[i].part = k}) = nIE

C10Holds(ty, orig, ts, acc) ==
  /\ EachBalances(ts)
  /\ ConservesOthers(ty, orig, ts, acc)
  /\ AccrualNetsToZero(orig, ts, acc)
  /\ DatesRight(ty, orig, ts, acc)
  /\ SplitOverExactlyThePeriods(ty, orig, ts, acc)
=============================================================================
