----------------------------- MODULE MC_Prices -----------------------------
(* All price graphs built by up to MaxDecl declarations over 4 commodities, and *)
(* the normalisation as a state machine whose iteration order is explicit:      *)
(*   Alg = "bfs": the repaired algorithm (queue, neighbours in name order);      *)
(*   Alg = "dfs": the original recursive walk in Go-map order = any order.       *)
(* For "bfs" the result must satisfy the property and be a function of the      *)
(* graph.  The "dfs" config documents defect D4 (it violates DirectPriceWins    *)
(* and Deterministic) and emits the order-sensitive graphs as hazard inputs.    *)
EXTENDS Prices, TLC, Json
CONSTANTS MaxDecl, Alg, Emit
VARIABLES g, hist, phase, V, res, work
vars == <<g, hist, phase, V, res, work>>
Order == <<"A", "B", "C", "D">>
CS == RangeOf(Order)
PVals == {5000, 20000, 40000}

Init == g = EmptyGraph(CS) /\ hist = << >> /\ phase = "decl" /\ V = "A" /\ res = Start(4, Order, "A") /\ work = << >>
Declare == /\ phase = "decl" /\ Len(hist) < MaxDecl
           /\ \E c \in CS, t \in CS, p \in PVals :
                /\ c # t
                /\ g' = Insert(4, g, c, p, t)
                /\ hist' = Append(hist, [c |-> c, p |-> p, t |-> t])
           /\ UNCHANGED <<phase, V, res, work>>
StartNorm == /\ phase = "decl" /\ Len(hist) > 0
             /\ \E v \in CS : V' = v /\ res' = Start(4, Order, v)
                              /\ work' = IF Alg = "bfs" THEN <<v>> ELSE << [n |-> v, todo |-> {m \in CS : g[v][m] # NoPrice}] >>
             /\ phase' = "norm" /\ UNCHANGED <<g, hist>>
\* bfs: one dequeue per step
StepBfs == /\ phase = "norm" /\ Alg = "bfs" /\ work # << >>
           /\ LET c == Head(work)
                  ns == SelectSeq(Order, LAMBDA n : g[c][n] # NoPrice /\ res[n] = NoPrice)
              IN /\ res' = [n \in CS |-> IF n \in RangeOf(ns) THEN Mul(4, g[c][n], res[c]) ELSE res[n]]
                 /\ work' = Tail(work) \o ns
           /\ UNCHANGED <<g, hist, phase, V>>
\* dfs: `for neighbor, price := range ps[c]` - the next neighbour is any not yet iterated one
StepDfs == /\ phase = "norm" /\ Alg = "dfs" /\ work # << >>
           /\ LET top == work[Len(work)] IN
              IF top.todo = {} THEN work' = SubSeq(work, 1, Len(work) - 1) /\ res' = res
              ELSE \E n \in top.todo :
                     LET rest == [work EXCEPT ![Len(work)].todo = @ \ {n}] IN
                     IF res[n] # NoPrice THEN work' = rest /\ res' = res
                     ELSE /\ res' = [res EXCEPT ![n] = Mul(4, g[top.n][n], res[top.n])]
                          /\ work' = Append(rest, [n |-> n, todo |-> {m \in CS : g[n][m] # NoPrice}])
           /\ UNCHANGED <<g, hist, phase, V>>
Finish == /\ phase = "norm" /\ work = << >> /\ phase' = "done" /\ UNCHANGED <<g, hist, V, res, work>>
Next == Declare \/ StartNorm \/ StepBfs \/ StepDfs \/ Finish
Spec == Init /\ [][Next]_vars /\ WF_vars(Next)

Valid == phase = "done" => IsValidNorm(4, g, CS, V, res)
Deterministic == phase = "done" => res = Canon(4, g, Order, V)
Terminates == <>(phase = "done" \/ (phase = "decl" /\ Len(hist) = MaxDecl))
\* hazard inputs: graphs on which some iteration order gives a result different from Canon
HazardEmit == (Emit /\ phase = "done" /\ res # Canon(4, g, Order, V)) => PrintT("HAZARD " \o ToJson([v |-> V, decls |-> hist]))
CaseEmit == (Emit /\ phase = "done") => PrintT("CASE " \o ToJson([v |-> V, decls |-> hist]))
=============================================================================
