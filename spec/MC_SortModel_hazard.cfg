SPECIFICATION Spec
CONSTANTS
  Names = {1, 2, 3, 4}
  Weights = {0, 1}
  Cmp = "weight"
INVARIANTS Deterministic Sorted
CHECK_DEADLOCK FALSE
