SPECIFICATION Spec
CONSTANTS
  NStages = 3
  NItems = 3
  FailS = 0
  FailN = 0
INVARIANT Emit
CHECK_DEADLOCK FALSE
