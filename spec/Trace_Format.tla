---------------------------- MODULE Trace_Format ----------------------------
(* C08: `knut format` / syntax.FormatFile.                                       *)
(* case = [id, parseable, before, after : [dirs : Seq(Seq(field)), gaps : Seq(id), *)
(*   lines : Seq("D" | "L" \o line)],                                             *)
(*   afterParses, idempotent, cliEqualsLib, cliExit, cliUnchanged]               *)
(* A field is "Type=value" for every leaf of a directive (dates, accounts,        *)
(* amounts as canonical decimals, commodities, description, interval) plus       *)
(* markers for the kind of directive and for annotations being present.           *)
EXTENDS Integers, Sequences, FiniteSets, Json, TLC
Cases == ndJsonDeserialize("cases.ndjson")
VARIABLES i, failed
Why(c) ==
  IF ~c.parseable THEN
       (IF c.cliExit = 0 THEN "unparseable-file-formatted-successfully"
        ELSE IF ~c.cliUnchanged THEN "unparseable-file-was-modified" ELSE "ok")
  ELSE IF c.panicked THEN "format-panicked"
  ELSE IF ~c.afterParses THEN "formatted-text-does-not-parse"
  ELSE IF Len(c.before.dirs) # Len(c.after.dirs) THEN "number-of-directives-changed"
  ELSE IF \E n \in 1..Len(c.before.dirs) : c.before.dirs[n] # c.after.dirs[n] THEN "directive-fields-changed"
  ELSE IF c.before.gaps # c.after.gaps THEN "text-between-directives-changed"
  ELSE IF c.before.lines # c.after.lines THEN "lines-between-directives-added-or-dropped" \* (directives interleaved with the complete lines outside them)
  ELSE IF c.inkBefore # c.inkAfter THEN "non-blank-text-added-or-dropped"        \* (census of the non-blank characters)
  ELSE IF ~c.idempotent THEN "formatting-twice-changes-the-text"
  ELSE IF c.cliExit # 0 THEN "cli-failed-on-parseable-file"
  ELSE IF ~c.cliEqualsLib THEN "cli-and-library-disagree"
  ELSE "ok"
Init == i = 1 /\ failed = << >>
Next == /\ i <= Len(Cases)
        /\ i' = i + 1
        /\ failed' = LET w == Why(Cases[i]) IN IF w = "ok" THEN failed ELSE Append(failed, [id |-> Cases[i].id, why |-> w])
Spec == Init /\ [][Next]_<<i, failed>>
Report == i <= Len(Cases) \/ PrintT("FAILED " \o ToJson(failed))
=============================================================================
