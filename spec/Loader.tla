------------------------------- MODULE Loader -------------------------------
(* journal.FromPath: three workers in a pool that does NOT cancel on error      *)
(*   W1 syntax.ParseFileRecursively : one errgroup task per included file, each  *)
(*      pushes its parsed file into the unbuffered syntax channel;               *)
(*   W2 model.FromStream : receives files, converts each in an inner pool        *)
(*      (cancel-on-error) and pushes the batch into the unbuffered model channel;*)
(*      it keeps receiving until the syntax channel is closed (Drain = TRUE);    *)
(*   W3 journal.FromModelStream : receives batches, adds them to the builder.    *)
(* A file's task creates the tasks of its includes one by one while it is being   *)
(* parsed (Spawn), so an included file may finish before the file that includes  *)
(* it (ParseDone).                                                               *)
(* Termination rests on channel closure, which TLC checks for every include      *)
(* tree on NFiles files and every placement of up to MaxFail syntax/model        *)
(* errors.  Drain = FALSE is the "stop reading on the first model error"         *)
(* variant, which deadlocks (kept to show the property is not vacuous).          *)
EXTENDS Integers, Sequences, FiniteSets
CONSTANTS NFiles, MaxFail, Drain
VARIABLES inc, bad, task, gerr, gcancel, sch, w2, conv, ierr, icancel, mch, w3, added, w1, result
vars == <<inc, bad, task, gerr, gcancel, sch, w2, conv, ierr, icancel, mch, w3, added, w1, result>>
Files == 1..NFiles
Trees == {t \in [Files -> SUBSET Files] :
            /\ \A f \in Files : \A g \in t[f] : g > f                        \* acyclic
            /\ \A g \in Files \ {1} : Cardinality({f \in Files : g \in t[f]}) = 1}   \* every file included exactly once

InitWith(incv, badv) ==
        /\ inc = incv
        /\ bad = badv
        /\ task = [f \in Files |-> IF f = 1 THEN "parsing" ELSE "none"]
        /\ gerr = "none" /\ gcancel = FALSE
        /\ sch = 0                       \* file offered on the syntax channel (0 = none)
        /\ w1 = "running" /\ w2 = "pop" /\ w3 = "pop"
        /\ conv = [f \in Files |-> "none"]
        /\ ierr = "none" /\ icancel = FALSE
        /\ mch = 0 /\ added = {} /\ result = "pending"
Init == \E incv \in Trees : \E badv \in {b \in [Files -> {"ok", "syntax", "model"}] : Cardinality({f \in Files : b[f] # "ok"}) <= MaxFail} :
          InitWith(incv, badv)

\* ---- W1: errgroup tasks
\* a file is read and parsed; the callback creates a task per include directive as it is met (errgroup.Go)
Spawn(f, g) ==
  /\ task[f] = "parsing" /\ g \in inc[f] /\ task[g] = "none"
  /\ task' = [task EXCEPT ![g] = "parsing"]
  /\ UNCHANGED <<inc, bad, gerr, gcancel, sch, w2, conv, ierr, icancel, mch, w3, added, w1, result>>
\* the file's own parse ends: a syntax error (or a missing file) may come after some includes were already
\* spawned; a sound file has spawned all of them
ParseDone(f) ==
  /\ task[f] = "parsing"
  /\ IF bad[f] = "syntax"
     THEN /\ task' = [task EXCEPT ![f] = "done"]
          /\ gerr' = IF gerr = "none" THEN "real" ELSE gerr
          /\ gcancel' = TRUE
     ELSE /\ \A g \in inc[f] : task[g] # "none"
          /\ task' = [task EXCEPT ![f] = "pushing"]
          /\ UNCHANGED <<gerr, gcancel>>
  /\ UNCHANGED <<inc, bad, sch, w2, conv, ierr, icancel, mch, w3, added, w1, result>>
\* cpr.Push(ctx, resCh, res): offer on the channel or see the group context cancelled
Offer(f) == /\ task[f] = "pushing" /\ sch = 0 /\ sch' = f /\ task' = [task EXCEPT ![f] = "offered"]
            /\ UNCHANGED <<inc, bad, gerr, gcancel, w2, conv, ierr, icancel, mch, w3, added, w1, result>>
PushCancelled(f) ==
  /\ task[f] \in {"pushing", "offered"} /\ gcancel
  /\ task' = [task EXCEPT ![f] = "done"] /\ sch' = IF sch = f THEN 0 ELSE sch
  /\ gerr' = IF gerr = "none" THEN "ctx" ELSE gerr
  /\ UNCHANGED <<inc, bad, gcancel, w2, conv, ierr, icancel, mch, w3, added, w1, result>>
\* wg.Wait() returns, Produce closes the syntax channel
W1Done == /\ w1 = "running" /\ \A f \in Files : task[f] \in {"none", "done"}
          /\ w1' = IF gerr = "none" THEN "nil" ELSE gerr
          /\ UNCHANGED <<inc, bad, task, gerr, gcancel, sch, w2, conv, ierr, icancel, mch, w3, added, result>>

\* ---- W2: model.FromStream
W2Recv == /\ w2 = "pop" /\ sch # 0
          /\ task' = [task EXCEPT ![sch] = "done"] /\ sch' = 0
          /\ IF Drain
             THEN conv' = [conv EXCEPT ![sch] = "converting"] /\ UNCHANGED <<w2, ierr, icancel>>
             ELSE \* variant: convert inline and return on the first error
                  IF bad[sch] = "model"
                  THEN w2' = "real" /\ ierr' = "real" /\ UNCHANGED <<conv, icancel>>
                  ELSE conv' = [conv EXCEPT ![sch] = "pushing"] /\ UNCHANGED <<w2, ierr, icancel>>
          /\ UNCHANGED <<inc, bad, gerr, gcancel, mch, w3, added, w1, result>>
W2Closed == /\ w2 = "pop" /\ sch = 0 /\ w1 # "running"
            /\ w2' = "wait"
            /\ UNCHANGED <<inc, bad, task, gerr, gcancel, sch, conv, ierr, icancel, mch, w3, added, w1, result>>
\* inner pool Wait, Produce closes the model channel
W2Done == /\ w2 = "wait" /\ \A f \in Files : conv[f] \in {"none", "done"}
          /\ w2' = IF ierr = "none" THEN "nil" ELSE ierr
          /\ UNCHANGED <<inc, bad, task, gerr, gcancel, sch, conv, ierr, icancel, mch, w3, added, w1, result>>
Convert(f) ==
  /\ conv[f] = "converting"
  /\ IF bad[f] = "model"
     THEN conv' = [conv EXCEPT ![f] = "done"] /\ ierr' = (IF ierr = "none" THEN "real" ELSE ierr) /\ icancel' = TRUE
     ELSE conv' = [conv EXCEPT ![f] = "pushing"] /\ UNCHANGED <<ierr, icancel>>
  /\ UNCHANGED <<inc, bad, task, gerr, gcancel, sch, w2, mch, w3, added, w1, result>>
ConvOffer(f) == /\ conv[f] = "pushing" /\ mch = 0 /\ mch' = f /\ conv' = [conv EXCEPT ![f] = "offered"]
                /\ UNCHANGED <<inc, bad, task, gerr, gcancel, sch, w2, ierr, icancel, w3, added, w1, result>>
ConvCancelled(f) == /\ conv[f] \in {"pushing", "offered"} /\ icancel
                    /\ conv' = [conv EXCEPT ![f] = "done"] /\ mch' = IF mch = f THEN 0 ELSE mch
                    /\ UNCHANGED <<inc, bad, task, gerr, gcancel, sch, w2, ierr, icancel, w3, added, w1, result>>

\* ---- W3: journal.FromModelStream
W3Recv == /\ w3 = "pop" /\ mch # 0
          /\ added' = added \cup {mch} /\ conv' = [conv EXCEPT ![mch] = "done"] /\ mch' = 0
          /\ UNCHANGED <<inc, bad, task, gerr, gcancel, sch, w2, ierr, icancel, w3, w1, result>>
W3Closed == /\ w3 = "pop" /\ mch = 0 /\ w2 \notin {"pop", "wait"}
            /\ w3' = "nil"
            /\ UNCHANGED <<inc, bad, task, gerr, gcancel, sch, w2, conv, ierr, icancel, mch, added, w1, result>>

\* ---- the outer pool: first error in completion order (WithFirstError, no cancel)
PoolWait == /\ result = "pending" /\ w1 # "running" /\ w2 \notin {"pop", "wait"} /\ w3 # "pop"
            /\ result' = IF w1 # "nil" THEN w1 ELSE IF w2 # "nil" THEN w2 ELSE "ok"
            /\ UNCHANGED <<inc, bad, task, gerr, gcancel, sch, w2, conv, ierr, icancel, mch, w3, added, w1>>
Finished == result # "pending" /\ UNCHANGED vars

\* the steps the hooks do not log
Silent == \/ \E f \in Files : Offer(f) \/ PushCancelled(f) \/ ConvOffer(f) \/ ConvCancelled(f)
          \/ W1Done \/ W2Recv \/ W2Closed \/ W2Done \/ W3Closed \/ PoolWait
Next == \/ \E f \in Files : ParseDone(f) \/ Convert(f) \/ \E g \in Files : Spawn(f, g)
        \/ W3Recv \/ Silent \/ Finished
Spec == Init /\ [][Next]_vars /\ WF_vars(Next)

\* ---------------------------------------------------------------- properties
Termination == <>(result # "pending")
NoLossNoDup == result = "ok" => added = Files                         \* exactly the union of all files
SuccessIffClean == result # "pending" => ((result = "ok") <=> (\A f \in Files : bad[f] = "ok"))
ErrorIsReal == result \notin {"ctx"}                                   \* an error of a failing stage
\* a file is added at most once and only if it was parsed and converted
AddedWereLoaded == \A f \in added : bad[f] = "ok"
=============================================================================
