--------------------------- MODULE Trace_ValueFree ---------------------------
(* C03 beyond the exact number regime: the tolerance clause itself.             *)
(* Quantities and prices are arbitrary decimals with up to 8 decimals, carried  *)
(* as signed big numbers at scale 10^8 ([neg, mag], BigNat limbs).  For a cell   *)
(* of an asset / liability account at a reporting date the exact value is        *)
(*     sum over commodities c of position(c) * latest price(c)        (scale 16) *)
(* and the shown value (scale 8) must be within steps * 10^-8 of it, where       *)
(* steps bounds the number of truncating arithmetic steps behind the cell: one   *)
(* per booking on the account and one per (held commodity, day with a price      *)
(* declaration) up to the date.                                                  *)
(* case = [id, v, bookings : Seq([z, a, c, q]), prices : Seq([z, c, p]),         *)
(*         cells : Seq([a, z, shown]), exit]                                     *)
(* bookings carry the signed effect q on account a; prices are declarations      *)
(* `price c p V` (V itself has price 1).                                         *)
EXTENDS BigNat, Json, TLC, FiniteSets
Cases == ndJsonDeserialize("cases.ndjson")
VARIABLES i, failed
One8 == <<0, 0, 1>>                                   \* 10^8
Bk(c, a, z) == {n \in 1..Len(c.bookings) : c.bookings[n].a = a /\ c.bookings[n].z <= z}
Comms(c, a, z) == {c.bookings[n].c : n \in Bk(c, a, z)}
Pos(c, a, z, cm) == SSumAll([k \in 1..Len(c.bookings) |->
                       IF k \in Bk(c, a, z) /\ c.bookings[k].c = cm THEN c.bookings[k].q ELSE Zero])
Decls(c, cm, z) == {n \in 1..Len(c.prices) : c.prices[n].c = cm /\ c.prices[n].z <= z}
\* the most recent declaration on or before z (the later one in the source on the same day)
Latest(c, cm, z) == LET ds == Decls(c, cm, z)
                        n == CHOOSE m \in ds : \A k \in ds : c.prices[k].z < c.prices[m].z \/ (c.prices[k].z = c.prices[m].z /\ k <= m)
                    IN c.prices[n].p
HasPrice(c, cm, z) == cm = c.v \/ Decls(c, cm, z) # {}
PriceOf(c, cm, z) == IF cm = c.v THEN One8 ELSE Latest(c, cm, z)
Exact(c, a, z) == LET cms == Comms(c, a, z)
                      sq == [k \in 1..Len(c.bookings) |->           \* one term per commodity, at its first booking
                               IF k \in Bk(c, a, z) /\ \A j \in Bk(c, a, z) : c.bookings[j].c = c.bookings[k].c => j >= k
                               THEN SMul(Pos(c, a, z, c.bookings[k].c), [neg |-> FALSE, mag |-> PriceOf(c, c.bookings[k].c, z)])
                               ELSE Zero]
                  IN SSumAll(sq)
Steps(c, a, z) == Cardinality(Bk(c, a, z))
                  + Cardinality({<<cm, c.prices[n].z>> : cm \in Comms(c, a, z), n \in {m \in 1..Len(c.prices) : c.prices[m].z <= z}}) + 1
CellBad(c, cell) ==
  LET shown16 == [neg |-> cell.shown.neg, mag |-> ShiftLimbs(cell.shown.mag, 2)]       \* scale 8 -> scale 16
      tol == Mul(FromInt(Steps(c, cell.a, cell.z)), One8)
  IN ~Leq(SDist(shown16, Exact(c, cell.a, cell.z)), tol)
Why(c) ==
  LET missing == \E k \in 1..Len(c.cells) : \E cm \in Comms(c, c.cells[k].a, c.cells[k].z) : ~HasPrice(c, cm, c.cells[k].z)
  IN IF c.exit # 0 THEN "valued-report-failed-although-every-price-exists"
     ELSE IF missing THEN "ok"                       \* (generated journals always declare the price first)
     ELSE IF \E k \in 1..Len(c.cells) : CellBad(c, c.cells[k]) THEN "value-outside-the-truncation-tolerance"
     ELSE "ok"
Init == i = 1 /\ failed = << >>
Next == /\ i <= Len(Cases)
        /\ i' = i + 1
        /\ failed' = LET w == Why(Cases[i]) IN IF w = "ok" THEN failed ELSE Append(failed, [id |-> Cases[i].id, why |-> w])
Spec == Init /\ [][Next]_<<i, failed>>
Report == i <= Len(Cases) \/ PrintT("FAILED " \o ToJson(failed))
=============================================================================
