------------------------------- MODULE Prices -------------------------------
(* Price graph and normalisation (property C12; used by Ledger for C03, C06).   *)
(* Numbers are integers at scale 10^sc.  sc = 4: the exact regime (prices up to *)
(* 20, reciprocals terminate); sc = 8: the faithful regime (magnitudes < 2.147, *)
(* 8-decimal truncation per step reproduced with two-limb arithmetic, since TLC *)
(* has 32-bit integers).                                                        *)
EXTENDS Integers, Sequences, FiniteSets

NoPrice == -1
Scale(sc) == IF sc = 4 THEN 10000 ELSE 100000000
RangeOf(sq) == {sq[x] : x \in DOMAIN sq}

\* (a * b) / 10^sc truncated, a, b >= 0
Mul(sc, a, b) ==
  IF sc = 4 THEN (a \div 10000) * b + ((a % 10000) * b) \div 10000
  ELSE LET a1 == a \div 10000  a0 == a % 10000
           b1 == b \div 10000  b0 == b % 10000
       IN a1 * b1 + (a1 * b0 + a0 * b1 + (a0 * b0) \div 10000) \div 10000

\* exact product of two scale-8 numbers as H * 10^8 + L
Prod8(a, b) ==
  LET a1 == a \div 10000  a0 == a % 10000
      b1 == b \div 10000  b0 == b % 10000
      m  == a1 * b0 + a0 * b1
      l0 == (m % 10000) * 10000 + a0 * b0
  IN [h |-> a1 * b1 + m \div 10000 + l0 \div 100000000, l |-> l0 % 100000000]
LeOne16(x) == x.h < 100000000 \/ (x.h = 100000000 /\ x.l = 0)      \* x <= 10^16
\* 1/p truncated to 8 decimals: the largest i with i * p <= 10^16 (0.4657 < p < 2.147)
RECURSIVE Bin8(_, _, _)
Bin8(p, lo, hi) == IF hi = lo + 1 THEN lo
                   ELSE LET mid == (lo + hi) \div 2
                        IN IF LeOne16(Prod8(mid, p)) THEN Bin8(p, mid, hi) ELSE Bin8(p, lo, mid)
Inv(sc, p) == IF sc = 4 THEN 100000000 \div p ELSE Bin8(p, 0, 214748364)

EmptyGraph(cs) == [t \in cs |-> [c \in cs |-> NoPrice]]
\* prices.Insert: the declared direction and the truncated reciprocal, both overwritten
Insert(sc, g, c, p, t) == [g EXCEPT ![t][c] = p, ![c][t] = Inv(sc, p)]
RECURSIVE InsertAll(_, _, _)
InsertAll(sc, g, decls) == IF decls = << >> THEN g
                           ELSE InsertAll(sc, Insert(sc, g, Head(decls).c, Head(decls).p, Head(decls).t), Tail(decls))

\* ---- the normalisation as repaired: breadth-first, neighbours in name order ----------
\* order = the commodity names as a sequence sorted by name
RECURSIVE BfsQ(_, _, _, _, _)
BfsQ(sc, g, order, res, queue) ==
  IF queue = << >> THEN res
  ELSE LET c == Head(queue)
           ns == SelectSeq(order, LAMBDA n : g[c][n] # NoPrice /\ res[n] = NoPrice)
           res2 == [n \in DOMAIN res |-> IF n \in RangeOf(ns) THEN Mul(sc, g[c][n], res[c]) ELSE res[n]]
       IN BfsQ(sc, g, order, res2, Tail(queue) \o ns)
Start(sc, order, V) == [c \in RangeOf(order) |-> IF c = V THEN Scale(sc) ELSE NoPrice]
Canon(sc, g, order, V) == BfsQ(sc, g, order, Start(sc, order, V), <<V>>)

\* ---- the property: what a normalisation result must satisfy -----------------------
RECURSIVE PathVals(_, _, _, _, _, _, _)
PathVals(sc, g, cs, cur, val, target, visited) ==
  IF cur = target THEN {val}
  ELSE UNION { PathVals(sc, g, cs, n, Mul(sc, g[cur][n], val), target, visited \cup {n}) :
                 n \in {m \in cs \ visited : g[cur][m] # NoPrice} }
ChainVals(sc, g, cs, V, c) == PathVals(sc, g, cs, V, Scale(sc), c, {V})
IsValidNorm(sc, g, cs, V, res) ==
  /\ res[V] = Scale(sc)
  /\ \A c \in cs \ {V} :
       IF g[V][c] # NoPrice THEN res[c] = g[V][c]                     \* direct (or reciprocal) price wins
       ELSE LET cv == ChainVals(sc, g, cs, V, c) IN
            IF cv = {} THEN res[c] = NoPrice                          \* not connected: no price
            ELSE res[c] \in cv                                        \* product along some chain
=============================================================================
