SPECIFICATION Spec
CONSTANTS
  MaxLen = 2
  Emit = FALSE
  Family = "unvalued"
INVARIANTS AllInv
CHECK_DEADLOCK FALSE
