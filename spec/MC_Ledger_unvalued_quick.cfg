SPECIFICATION Spec
CONSTANTS
  MaxLen = 2
  Family = "unvalued"
INVARIANTS AllInv
CHECK_DEADLOCK FALSE
