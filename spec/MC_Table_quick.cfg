SPECIFICATION Spec
CONSTANTS
  NI = 4
  NF = 3
  MaxD = 2
INVARIANTS FmtMeetsClauses NeverBelowTruncation
CHECK_DEADLOCK FALSE
