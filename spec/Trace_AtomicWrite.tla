------------------------- MODULE Trace_AtomicWrite -------------------------
(* Validates file-system traces (strace) of real `knut format` / `knut infer     *)
(* --inplace` runs under injected faults against AtomicWrite.                    *)
(* globalFault: an injected fault hit a call unrelated to any target (loader, stderr) *)
(* case = [id, exit, killed, globalFault, files : Seq([name, parseable, newLen, events,       *)
(*          final : "Old"|"New"|"Other"|"Absent", tempLeft, faulted])]           *)
EXTENDS AtomicWrite, Json, TLC
Cases == ndJsonDeserialize("cases.ndjson")
VARIABLES i, failed
WhyFile(c, f) ==
  LET fin == Fold(Init0, f.events, f.newLen) IN
  IF ~AlwaysIntact(Init0, f.events, f.newLen) THEN "protocol-leaves-target-not-intact"
  ELSE IF f.final \notin {"Old", "New"} THEN "target-neither-old-nor-new"
  ELSE IF fin.target # f.final THEN "final-contents-not-explained-by-trace"
  ELSE IF ~f.parseable /\ (SelectSeq(f.events, LAMBDA e : e.op # "rtarget") # << >> \/ f.final # "Old") THEN "unparseable-file-touched"
  ELSE IF ~c.killed /\ c.exit # 0 /\ f.tempLeft THEN "temp-file-left-behind-on-error"
  ELSE IF ~c.killed /\ ~c.globalFault /\ f.parseable /\ ~f.faulted /\ f.final # "New" THEN "unaffected-file-not-rewritten"
  ELSE IF ~c.killed /\ c.exit = 0 /\ f.final # "New" THEN "success-without-new-contents"
  ELSE "ok"
Why(c) ==
  LET bad == {n \in 1..Len(c.files) : WhyFile(c, c.files[n]) # "ok"} IN
  IF bad # {} THEN WhyFile(c, c.files[CHOOSE n \in bad : \A m \in bad : n <= m])
  ELSE "ok"
Init == i = 1 /\ failed = << >>
Next == /\ i <= Len(Cases)
        /\ i' = i + 1
        /\ failed' = LET w == Why(Cases[i]) IN IF w = "ok" THEN failed ELSE Append(failed, [id |-> Cases[i].id, why |-> w])
Spec == Init /\ [][Next]_<<i, failed>>
Report == i <= Len(Cases) \/ PrintT("FAILED " \o ToJson(failed))
=============================================================================
