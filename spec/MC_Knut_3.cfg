SPECIFICATION Spec
CONSTANTS
  CaseId = 3
INVARIANTS ScheduleIndependent StageOrder
PROPERTY Terminates
