SPECIFICATION Spec
CONSTANTS
  MaxLen = 4
  MaxOps = 3
  Emit = TRUE
INVARIANTS EmitCase
CHECK_DEADLOCK FALSE
