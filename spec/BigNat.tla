------------------------------- MODULE BigNat -------------------------------
(* Natural numbers of arbitrary size as little-endian sequences of base-10^4    *)
(* limbs (TLC integers are 32-bit).  Used to add decimal amounts exactly.       *)
EXTENDS Integers, Sequences
Base == 10000
Limb(s, k) == IF k <= Len(s) THEN s[k] ELSE 0
MaxLen(a, b) == IF Len(a) >= Len(b) THEN Len(a) ELSE Len(b)
RECURSIVE AddFrom(_, _, _, _)
AddFrom(a, b, k, carry) ==
  IF k > MaxLen(a, b) THEN (IF carry = 0 THEN << >> ELSE <<carry>>)
  ELSE LET t == Limb(a, k) + Limb(b, k) + carry
       IN <<t % Base>> \o AddFrom(a, b, k + 1, t \div Base)
Add(a, b) == AddFrom(a, b, 1, 0)
RECURSIVE Norm(_)
Norm(a) == IF a # << >> /\ a[Len(a)] = 0 THEN Norm(SubSeq(a, 1, Len(a) - 1)) ELSE a
RECURSIVE SumAll(_)
SumAll(sq) == IF sq = << >> THEN << >> ELSE Add(Head(sq), SumAll(Tail(sq)))
Equal(a, b) == Norm(a) = Norm(b)
=============================================================================
