------------------------------- MODULE BigNat -------------------------------
(* Natural numbers of arbitrary size as little-endian sequences of base-10^4    *)
(* limbs (TLC integers are 32-bit).  Used to add, compare and multiply decimal   *)
(* amounts exactly.                                                             *)
EXTENDS Integers, Sequences
Base == 10000
Limb(s, k) == IF k <= Len(s) THEN s[k] ELSE 0
MaxLen(a, b) == IF Len(a) >= Len(b) THEN Len(a) ELSE Len(b)
RECURSIVE AddFrom(_, _, _, _)
AddFrom(a, b, k, carry) ==
  IF k > MaxLen(a, b) THEN (IF carry = 0 THEN << >> ELSE <<carry>>)
  ELSE LET t == Limb(a, k) + Limb(b, k) + carry
       IN <<t % Base>> \o AddFrom(a, b, k + 1, t \div Base)
Add(a, b) == AddFrom(a, b, 1, 0)
RECURSIVE Norm(_)
Norm(a) == IF a # << >> /\ a[Len(a)] = 0 THEN Norm(SubSeq(a, 1, Len(a) - 1)) ELSE a
RECURSIVE SumAll(_)
SumAll(sq) == IF sq = << >> THEN << >> ELSE Add(Head(sq), SumAll(Tail(sq)))
Equal(a, b) == Norm(a) = Norm(b)
\* ---- comparison, subtraction, multiplication (products of limbs stay below 2^31: 9999 * 9999 + carries)
RECURSIVE CmpFrom(_, _, _)
CmpFrom(a, b, k) == IF k = 0 THEN 0 ELSE IF a[k] < b[k] THEN -1 ELSE IF a[k] > b[k] THEN 1 ELSE CmpFrom(a, b, k - 1)
Cmp(x, y) == LET a == Norm(x)  b == Norm(y) IN
             IF Len(a) < Len(b) THEN -1 ELSE IF Len(a) > Len(b) THEN 1 ELSE CmpFrom(a, b, Len(a))
Leq(x, y) == Cmp(x, y) <= 0
RECURSIVE SubFrom(_, _, _, _)
SubFrom(a, b, k, borrow) ==           \* a >= b
  IF k > Len(a) THEN << >>
  ELSE LET t == a[k] - Limb(b, k) - borrow
       IN IF t < 0 THEN <<t + Base>> \o SubFrom(a, b, k + 1, 1) ELSE <<t>> \o SubFrom(a, b, k + 1, 0)
Sub(a, b) == Norm(SubFrom(a, b, 1, 0))
Dist(a, b) == IF Leq(b, a) THEN Sub(a, b) ELSE Sub(b, a)          \* |a - b|
RECURSIVE MulLimbFrom(_, _, _, _)
MulLimbFrom(b, x, k, carry) ==
  IF k > Len(b) THEN (IF carry = 0 THEN << >> ELSE <<carry>>)
  ELSE LET t == b[k] * x + carry IN <<t % Base>> \o MulLimbFrom(b, x, k + 1, t \div Base)
RECURSIVE Mul(_, _)
Mul(a, b) == IF a = << >> \/ b = << >> THEN << >>
             ELSE Add(MulLimbFrom(b, a[1], 1, 0), IF Len(a) = 1 THEN << >> ELSE <<0>> \o Mul(Tail(a), b))
FromInt(n) == IF n = 0 THEN << >> ELSE IF n < Base THEN <<n>> ELSE <<n % Base, n \div Base>>   \* n < 10^8
ShiftLimbs(a, k) == IF Norm(a) = << >> THEN << >> ELSE [n \in 1..k |-> 0] \o a                \* a * Base^k
\* ---- signed numbers [neg, mag]
Zero == [neg |-> FALSE, mag |-> << >>]
SNorm(x) == LET m == Norm(x.mag) IN [neg |-> x.neg /\ m # << >>, mag |-> m]
SAdd(x, y) ==
  IF x.neg = y.neg THEN SNorm([neg |-> x.neg, mag |-> Add(x.mag, y.mag)])
  ELSE IF Leq(y.mag, x.mag) THEN SNorm([neg |-> x.neg, mag |-> Sub(x.mag, y.mag)])
  ELSE SNorm([neg |-> y.neg, mag |-> Sub(y.mag, x.mag)])
SNeg(x) == SNorm([neg |-> ~x.neg, mag |-> x.mag])
SMul(x, y) == SNorm([neg |-> x.neg # y.neg, mag |-> Mul(x.mag, y.mag)])
SDist(x, y) == SAdd(x, SNeg(y)).mag                                \* |x - y|
RECURSIVE SSumAll(_)
SSumAll(sq) == IF sq = << >> THEN Zero ELSE SAdd(Head(sq), SSumAll(Tail(sq)))
=============================================================================
