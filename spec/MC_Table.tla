------------------------------ MODULE MC_Table ------------------------------
(* Exhaustive check of the formatting function against the clauses of C17 that   *)
(* are stated independently of its construction: for every amount with up to     *)
(* NI integer and NF fraction digits over a digit alphabet that contains the     *)
(* rounding boundaries (0, 4, 5, 9), every --digits in 0..MaxD and --thousands   *)
(* on/off, the rendered tokens parse back to the amount rounded half away from   *)
(* zero, are grouped by threes, carry a minus sign iff negative and non-zero     *)
(* after rounding.  The amount is built digit by digit (one action per digit).   *)
EXTENDS Table, TLC
CONSTANTS NI, NF, MaxD
VARIABLES ip, fp, sg, k, digits, stage
vars == <<ip, fp, sg, k, digits, stage>>
Alpha == {0, 4, 5, 9}
Init == ip = << >> /\ fp = << >> /\ sg \in {-1, 1} /\ k \in BOOLEAN /\ digits \in 0..MaxD /\ stage = "ip"
AddI == stage = "ip" /\ Len(ip) < NI /\ \E d \in Alpha : ip' = Append(ip, d) /\ UNCHANGED <<fp, sg, k, digits, stage>>
ToF == stage = "ip" /\ ip # << >> /\ stage' = "fp" /\ UNCHANGED <<ip, fp, sg, k, digits>>
AddF == stage = "fp" /\ Len(fp) < NF /\ \E d \in Alpha : fp' = Append(fp, d) /\ UNCHANGED <<ip, sg, k, digits, stage>>
Next == AddI \/ ToF \/ AddF
Spec == Init /\ [][Next]_vars
Amount == [sg |-> IF AllZero(ip) /\ AllZero(fp) THEN 0 ELSE sg, ip |-> ip, fp |-> fp, k |-> k, digits |-> digits]
FmtMeetsClauses == stage = "fp" => CellOK([Amount EXCEPT !.ip = ip] @@ [out |-> Fmt(Amount)])
\* rounding is monotone in the magnitude: appending a digit never lowers the rounded value below truncation
NeverBelowTruncation == stage = "fp" =>
  LET a == IF k THEN Div1000(Strip(ip), fp) ELSE [ip |-> Strip(ip), fp |-> fp]
      r == Round(a.ip, a.fp, digits)
      t == Strip(a.ip) \o SubSeq(a.fp \o Zeros(digits), 1, digits)
  IN Strip(r.ip \o r.fp) = Strip(t) \/ Strip(r.ip \o r.fp) = Strip(Inc(t))
=============================================================================
