--------------------------- MODULE Trace_Portfolio ---------------------------
(* Judges real `knut portfolio weights` (text, --digits 4: weights at 1e-6) and  *)
(* `knut portfolio returns` runs against Portfolio.tla.                          *)
(* case = Ledger case + universe + obs = [wexit, cols : Seq(z),                   *)
(*   rows : Seq([path : Seq(String), w : Seq(Int)]), rexit, returns : Seq([z, r])]*)
(* r = the printed percentage in tenths of a percent.                             *)
EXTENDS Portfolio, Json, TLC
Cases == ndJsonDeserialize("cases.ndjson")
VARIABLES i, failed
Abs2(x) == IF x < 0 THEN -x ELSE x
Why(c) ==
  LET dirs == Expanded(c)
      ps == Periods(c, dirs)
      np == Len(ps)
      rows == c.obs.rows
      tol(z) == Total(c, z) + 2
      \* a reporting date at which the (filtered) portfolio holds nothing has no column
      shown == SelectSeq([k \in 1..np |-> k], LAMBDA k : \E cc \in Comms(c) : Holding(c, cc, ps[k].e) # 0)
      nS == Len(shown)
      E(j) == ps[shown[j]].e
  IN IF c.obs.wexit # 0 THEN "weights-failed"
     ELSE IF c.obs.cols # [j \in 1..nS |-> E(j)] THEN "weights-columns-are-not-the-period-ends"
     \* every shown node: weight x total = value below that node
     ELSE IF \E n \in 1..Len(rows) : \E j \in 1..nS :
               Total(c, E(j)) > 0 /\
               Abs2(rows[n].w[j] * Total(c, E(j)) - NodeValue(c, rows[n].path, E(j)) * 1000000) > tol(E(j)) THEN "weight-differs-from-valued-holdings"
     \* every held commodity is shown
     ELSE IF \E cc \in Comms(c) : \E j \in 1..nS : Holding(c, cc, E(j)) # 0 /\ Total(c, E(j)) > 0
                /\ ~\E n \in 1..Len(rows) : rows[n].path = PathOf(c, cc) THEN "held-commodity-missing"
     \* the top level sums to 100%
     ELSE IF \E j \in 1..nS : Total(c, E(j)) > 0 /\
               LET top == {n \in 1..Len(rows) : Len(rows[n].path) = 1}
                   s == SumOver(SetToSeq(top), LAMBDA n : rows[n].w[j])
               IN Abs2(s - 1000000) > 2 * Cardinality(top) + 2 THEN "top-level-does-not-sum-to-100"
     ELSE IF c.obs.rexit # 0 THEN "returns-failed"
     \* a return for every period of the requested partition
     ELSE IF [k \in 1..Len(c.obs.returns) |-> c.obs.returns[k].z] # [k \in 1..np |-> ps[k].e] THEN "a-period-has-no-return-line"
     ELSE IF \E k \in 1..np :
               LET lo == ps[k].s  hi == ps[k].e
                   v0 == Total(c, lo - 1)  v1 == Total(c, hi)
                   r == c.obs.returns[k].r
               IN \/ (~PriceChanged(c, lo, hi) /\ ~HasPerfTrx(c, lo, hi) /\ r # 0)       \* (also for the first line under --last)
                  \/ (~HasFlow(c, lo, hi) /\ v0 # 0                    \* (a net debt has a return too: v0 < 0)
                        /\ Abs2(r * v0 - 1000 * (v1 - v0)) > Abs2(v0))  \* r/1000 = v1/v0 - 1 within the printed 0.1%
          THEN "return-differs"
     ELSE "ok"
Init == i = 1 /\ failed = << >>
Next == /\ i <= Len(Cases)
        /\ i' = i + 1
        /\ failed' = LET w == Why(Cases[i]) IN IF w = "ok" THEN failed ELSE Append(failed, [id |-> Cases[i].id, why |-> w])
Spec == Init /\ [][Next]_<<i, failed>>
Report == i <= Len(Cases) \/ PrintT("FAILED " \o ToJson(failed))
=============================================================================
