SPECIFICATION Spec
CONSTANTS
  MaxLen = 3
  Emit = TRUE
  Family = "valued"
INVARIANTS EmitCase
CHECK_DEADLOCK FALSE
