SPECIFICATION Spec
CONSTANTS
  MaxDecl = 3
  Alg = "dfs"
  Emit = TRUE
INVARIANTS HazardEmit
CHECK_DEADLOCK FALSE
