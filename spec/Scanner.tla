------------------------------ MODULE Scanner ------------------------------
(* lib/syntax/scanner as a state machine over texts of character classes         *)
(* (property C07).  Symbols: "a" letter, "1" digit, "s" space, "n" newline,       *)
(* "U" a two-byte letter, "X" an invalid byte, "q" a double quote.  The scanner   *)
(* state is (byte offset, current rune, its byte length); current is a symbol or  *)
(* "EOF", "NUL" (before the first Advance), "ERR0" (utf8.RuneError of width 0,    *)
(* what decoding the empty string yields).  Every public operation is an operator *)
(* (text, state) -> [st, s, e, err] with the returned range [s, e).               *)
EXTENDS Integers, Sequences, FiniteSets, TLC, Json
CONSTANTS MaxLen, MaxOps, Emit
VARIABLES text, st, hist
vars == <<text, st, hist>>

Alphabet == {"a", "1", "s", "n", "U", "X", "q"}
Width(x) == IF x = "U" THEN 2 ELSE 1
RECURSIVE Total(_)
Total(t) == IF t = << >> THEN 0 ELSE Width(Head(t)) + Total(Tail(t))
Off(t, k) == Total(SubSeq(t, 1, k - 1))                       \* byte offset of symbol k
Boundaries(t) == {Off(t, k) : k \in 1..(Len(t) + 1)}
SymAt(t, off) == LET ks == {k \in 1..Len(t) : Off(t, k) = off} IN IF ks = {} THEN "EOF" ELSE t[CHOOSE k \in ks : TRUE]

S0 == [off |-> 0, cur |-> "NUL", clen |-> 0]
R(s, a, b, err) == [st |-> s, s |-> a, e |-> b, err |-> err]

\* utf8.DecodeRuneInString at a byte offset
Decode(t, off) == IF off = Total(t) THEN [cur |-> "ERR0", clen |-> 0]
                  ELSE LET x == SymAt(t, off) IN [cur |-> x, clen |-> Width(x)]
Advance(t, s) ==
  LET off2 == s.off + s.clen IN
  IF off2 = Total(t) /\ s.cur # "EOF" THEN [st |-> [off |-> off2, cur |-> "EOF", clen |-> 0], err |-> FALSE]
  ELSE LET d == Decode(t, off2) IN
       [st |-> [off |-> off2, cur |-> d.cur, clen |-> d.clen], err |-> d.cur \in {"ERR0", "X"}]
Backtrack(t, off) == LET d == Decode(t, off) IN [off |-> off, cur |-> d.cur, clen |-> d.clen]

Holds(P, c) ==
  CASE P = "letter" -> c \in {"a", "U"}
    [] P = "digit"  -> c = "1"
    [] P = "space"  -> c = "s"
    [] P = "alnum"  -> c \in {"a", "U", "1"}
    [] P = "nl"     -> c = "n"
    [] P = "notnl"  -> c \notin {"n", "EOF"}

\* loops carry fuel: running out of it would be non-termination
RECURSIVE WhileLoop(_, _, _, _, _)
WhileLoop(t, s, P, start, fuel) ==
  IF fuel = 0 THEN R(s, start, -1, TRUE)
  ELSE IF Holds(P, s.cur) /\ s.cur # "EOF"
  THEN LET a == Advance(t, s) IN
       IF a.err THEN R(a.st, start, a.st.off, TRUE) ELSE WhileLoop(t, a.st, P, start, fuel - 1)
  ELSE R(s, start, s.off, FALSE)
Fuel(t) == Len(t) + 4
ReadWhile(t, s, P) == WhileLoop(t, s, P, s.off, Fuel(t))
ReadWhile1(t, s, P) ==
  IF s.cur = "EOF" \/ ~Holds(P, s.cur) THEN R(s, s.off, s.off, TRUE) ELSE WhileLoop(t, s, P, s.off, Fuel(t))
RECURSIVE UntilLoop(_, _, _, _, _)
UntilLoop(t, s, P, start, fuel) ==
  IF fuel = 0 THEN R(s, start, -1, TRUE)
  ELSE IF ~Holds(P, s.cur)
  THEN LET a == Advance(t, s) IN
       IF a.err \/ a.st.cur = "EOF" THEN R(a.st, start, a.st.off, TRUE) ELSE UntilLoop(t, a.st, P, start, fuel - 1)
  ELSE R(s, start, s.off, FALSE)
ReadUntil(t, s, P) == UntilLoop(t, s, P, s.off, Fuel(t))
ReadCharacter(t, s, x) ==
  IF s.cur = "EOF" \/ s.cur # x THEN R(s, s.off, s.off, TRUE)
  ELSE LET a == Advance(t, s) IN R(a.st, s.off, a.st.off, a.err)
RECURSIVE StringLoop(_, _, _, _)
StringLoop(t, s, str, start) ==
  IF str = << >> THEN R(s, start, s.off, FALSE)
  ELSE IF Head(str) # s.cur THEN R(s, start, s.off, TRUE)
  ELSE LET a == Advance(t, s) IN
       IF a.err THEN R(a.st, start, a.st.off, TRUE) ELSE StringLoop(t, a.st, Tail(str), start)
ReadString(t, s, str) == StringLoop(t, s, str, s.off)
RECURSIVE AltLoop(_, _, _, _)
AltLoop(t, s, alts, start) ==
  IF alts = << >> THEN R(s, start, s.off, TRUE)
  ELSE LET r == ReadString(t, s, Head(alts)) IN
       IF ~r.err THEN r ELSE AltLoop(t, Backtrack(t, start), Tail(alts), start)
ReadAlternative(t, s, alts) ==
  IF s.cur = "EOF" THEN R(s, s.off, s.off, TRUE) ELSE AltLoop(t, s, alts, s.off)

Ops == {[op |-> "Advance"]}
  \cup {[op |-> "ReadWhile", p |-> P] : P \in {"letter", "notnl", "alnum"}}
  \cup {[op |-> "ReadWhile1", p |-> P] : P \in {"digit", "space"}}
  \cup {[op |-> "ReadUntil", p |-> "nl"]}
  \cup {[op |-> "ReadCharacter", x |-> x] : x \in {"q", "n"}}
  \cup {[op |-> "ReadString", str |-> <<"a", "1">>]}
  \cup {[op |-> "ReadAlternative", alts |-> << <<"a", "a">>, <<"a", "U">>, <<"a">> >>]}
Apply(t, s, o) ==
  CASE o.op = "Advance" -> LET a == Advance(t, s) IN R(a.st, a.st.off, a.st.off, a.err)
    [] o.op = "ReadWhile" -> ReadWhile(t, s, o.p)
    [] o.op = "ReadWhile1" -> ReadWhile1(t, s, o.p)
    [] o.op = "ReadUntil" -> ReadUntil(t, s, o.p)
    [] o.op = "ReadCharacter" -> ReadCharacter(t, s, o.x)
    [] o.op = "ReadString" -> ReadString(t, s, o.str)
    [] o.op = "ReadAlternative" -> ReadAlternative(t, s, o.alts)

RECURSIVE SeqsUpTo(_)
SeqsUpTo(n) == IF n = 0 THEN {<< >>} ELSE SeqsUpTo(n - 1) \cup {Append(x, y) : x \in {z \in SeqsUpTo(n - 1) : Len(z) = n - 1}, y \in Alphabet}
Init == text \in SeqsUpTo(MaxLen) /\ st = S0 /\ hist = << >>
Step == /\ Len(hist) < MaxOps
        /\ \E o \in Ops :
             LET r == Apply(text, st, o) IN
             /\ st' = r.st
             /\ hist' = Append(hist, [o |-> o, off |-> r.st.off, cur |-> r.st.cur, s |-> r.s, e |-> r.e, err |-> r.err])
        /\ UNCHANGED text
Next == Step
Spec == Init /\ [][Next]_vars

\* ---------------------------------------------------------------- properties
InText == st.off \in 0..Total(text) /\ st.off \in Boundaries(text)
RangesOK == \A n \in 1..Len(hist) :
              /\ hist[n].e # -1                                   \* every loop terminated within its fuel
              /\ 0 <= hist[n].s /\ hist[n].s <= hist[n].e /\ hist[n].e <= Total(text)
              /\ hist[n].e = hist[n].off                          \* a returned range ends at the scanner position
              /\ hist[n].s \in Boundaries(text)
\* an operation either consumes input, or fails, or was a no-op loop whose predicate does not hold
Progress == \A n \in 1..Len(hist) :
              hist[n].o.op \in {"ReadWhile1", "ReadCharacter", "ReadString", "ReadAlternative"} /\ ~hist[n].err => hist[n].e > hist[n].s
\* the end of the text is reported, not read past
EofSticky == st.cur = "EOF" => st.off = Total(text)
EmitCase == (Emit /\ Len(hist) = MaxOps) => PrintT("CASE " \o ToJson([text |-> text, hist |-> hist]))
=============================================================================
