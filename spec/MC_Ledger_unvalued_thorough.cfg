SPECIFICATION Spec
CONSTANTS
  MaxLen = 3
  Emit = FALSE
  Family = "unvalued"
INVARIANTS AllInv
CHECK_DEADLOCK FALSE
