SPECIFICATION Spec
CONSTANTS
  MaxLen = 3
  Family = "unvalued"
INVARIANTS AllInv
CHECK_DEADLOCK FALSE
