SPECIFICATION Spec
CONSTANTS
  Emit = FALSE
INVARIANTS FailureLeavesStdoutEmpty FaultFailsCommand ExitCodeMatches
PROPERTY Terminates
