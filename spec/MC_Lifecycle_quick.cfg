SPECIFICATION Spec
CONSTANTS
  MaxLen = 3
  NDays = 2
  Emit = FALSE
INVARIANT AcceptIffRef
PROPERTY RejectionPermanent
CHECK_DEADLOCK FALSE
