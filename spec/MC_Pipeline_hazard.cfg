SPECIFICATION Spec
CONSTANTS
  NStages = 2
  NItems = 2
  MaxFail = 1
  CancelFirst = TRUE
INVARIANTS ErrorIsReal
