SPECIFICATION Spec
CONSTANTS
  Ordered = TRUE
INVARIANTS ResultAllowed SameEveryRun
CHECK_DEADLOCK FALSE
