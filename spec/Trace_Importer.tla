--------------------------- MODULE Trace_Importer ---------------------------
(* case = [id, importer, rows, bals, prices, obs = [exit, parses, accepted,       *)
(*   fixpoint, trx : Seq([z, effs : Seq([c, v])]), asserts : Seq([z, cur, bal]),  *)
(*   prices : Seq([z, p, c, t]), others : Int]]                                   *)
EXTENDS Importer, Json, TLC
Cases == ndJsonDeserialize("cases.ndjson")
VARIABLES i, failed
Why(c) ==
  IF c.obs.exit # 0 THEN "importer-failed-on-a-well-formed-statement"
  ELSE IF ~c.obs.parses THEN "output-is-not-valid-knut-syntax"
  ELSE IF Len(c.obs.trx) # Len(c.rows) THEN "not-one-transaction-per-row"
  ELSE IF ~Faithful(c.rows, c.obs.trx) THEN "transaction-date-amount-or-currency-differs-from-the-row"
  ELSE IF c.obs.others # 0 THEN "emitted-something-the-statement-does-not-carry"
  ELSE IF ~AssertionsCarried(c.bals, c.obs.asserts) THEN "assertion-not-carried-by-the-statement"
  ELSE IF ~PricesCarried(c.prices, c.obs.prices) THEN "prices-differ-from-the-statement"
  ELSE IF ~c.obs.accepted THEN "output-not-accepted-once-accounts-are-opened"
  ELSE IF ~c.obs.fixpoint THEN "output-is-not-reprinted-unchanged"
  ELSE "ok"
Init == i = 1 /\ failed = << >>
Next == /\ i <= Len(Cases)
        /\ i' = i + 1
        /\ failed' = LET w == Why(Cases[i]) IN IF w = "ok" THEN failed ELSE Append(failed, [id |-> Cases[i].id, why |-> w])
Spec == Init /\ [][Next]_<<i, failed>>
Report == i <= Len(Cases) \/ PrintT("FAILED " \o ToJson(failed))
=============================================================================
