SPECIFICATION Spec
CONSTANTS
  MaxLen = 2
  Emit = TRUE
  Family = "mapping"
INVARIANTS EmitCase
CHECK_DEADLOCK FALSE
