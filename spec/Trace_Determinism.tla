------------------------- MODULE Trace_Determinism -------------------------
(* C06: R repetitions of one command on one input (fresh processes = fresh map  *)
(* seeds, different GOMAXPROCS and schedule-perturbation seeds) must produce    *)
(* one (stdout, exit status) pair.  case = [id, outs : Seq(hash id), exits]      *)
EXTENDS Integers, Sequences, FiniteSets, Json, TLC
Cases == ndJsonDeserialize("cases.ndjson")
VARIABLES i, failed
Why(c) == IF Cardinality({c.outs[n] : n \in 1..Len(c.outs)}) # 1 THEN "stdout-differs-between-runs"
          ELSE IF Cardinality({c.exits[n] : n \in 1..Len(c.exits)}) # 1 THEN "exit-status-differs-between-runs"
          ELSE "ok"
Init == i = 1 /\ failed = << >>
Next == /\ i <= Len(Cases)
        /\ i' = i + 1
        /\ failed' = LET w == Why(Cases[i]) IN IF w = "ok" THEN failed ELSE Append(failed, [id |-> Cases[i].id, why |-> w])
Spec == Init /\ [][Next]_<<i, failed>>
Report == i <= Len(Cases) \/ PrintT("FAILED " \o ToJson(failed))
=============================================================================
