SPECIFICATION Spec
CONSTANTS
  NI = 6
  NF = 3
  MaxD = 3
INVARIANTS FmtMeetsClauses NeverBelowTruncation
CHECK_DEADLOCK FALSE
