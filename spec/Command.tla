------------------------------ MODULE Command ------------------------------
(* Every journal-processing command as: load (parse the include graph, build the *)
(* model) -> process -> render into a buffer -> emit (property C14).  The         *)
(* scenario (include graph, content class of the faulty file, its position,       *)
(* command, flag class) is chosen in Init; the command then takes one step per    *)
(* phase.  Output is emitted only by the last step, so a failing command leaves   *)
(* standard output empty; a fault in any loaded file fails the command.           *)
EXTENDS Integers, Sequences, FiniteSets, TLC, Json
CONSTANTS Emit
VARIABLES sc, phase, status, stdout, visited
vars == <<sc, phase, status, stdout, visited>>

Graphs == {"single", "chain", "diamond", "wide", "self", "cycle2", "missing", "dirtarget"}
Contents == {"valid", "empty", "syntax", "model", "lifecycle", "noprice", "accrualInverted", "accrualUnopened", "zeroPrice", "year1", "binary", "noTransactions"}
Cmds == {"check", "checkwrite", "balance", "balanceV", "print", "format", "infer", "transcode", "returns", "weights"}
FlagClasses == {"none", "inverted", "lastNeg", "lastZero", "unknownV", "noV", "mapNeg", "mapSuffixNeg", "digitsNeg", "digitsHuge", "digitsMin", "lastHuge", "remapNew", "remapAll", "filters"}
ReportCmds == {"balance", "balanceV", "print", "transcode", "infer", "checkwrite"}
Windowed == {"balance", "balanceV", "returns", "weights"}
NeedsV == {"balanceV", "transcode", "returns", "weights"}

Scenarios == {s \in [graph : Graphs, content : Contents, where : {"root", "leaf"}, cmd : Cmds, flags : FlagClasses] :
   /\ (s.where = "leaf" => s.graph \in {"chain", "diamond", "wide"})          \* a leaf exists
   /\ (s.flags \in {"inverted", "lastNeg", "lastZero"} => s.cmd \in Windowed)
   /\ (s.flags \in {"unknownV", "noV"} => s.cmd \in NeedsV)
   /\ (s.flags \in {"mapNeg", "mapSuffixNeg"} => s.cmd \in {"balance", "balanceV", "weights"})
   /\ (s.flags \in {"digitsNeg", "digitsHuge", "digitsMin"} => s.cmd \in {"balance", "weights"})
   /\ (s.flags = "lastHuge" => s.cmd \in Windowed)
   /\ (s.flags \in {"remapNew", "remapAll", "filters"} => s.cmd \in {"balance", "balanceV"})}

\* format rewrites only the file it is given; every other command loads the include graph
LoadsIncludes(s) == s.cmd # "format"
FaultyFileLoaded(s) == s.where = "root" \/ LoadsIncludes(s)
\* an error in any included file fails the whole command
MustFail(s) ==
  \/ (s.content \in {"syntax", "binary"} /\ FaultyFileLoaded(s))
  \/ (s.content = "model" /\ FaultyFileLoaded(s) /\ s.cmd \notin {"format", "infer"})   \* format and infer work on the syntax tree only
  \/ (s.graph \in {"self", "cycle2", "missing", "dirtarget"} /\ LoadsIncludes(s))
  \/ (s.flags = "noV" /\ s.cmd = "transcode")

Init == sc \in Scenarios /\ phase = "load" /\ status = "running" /\ stdout = "empty" /\ visited = {}
\* load: the include graph is walked; a file already on the include path is an error, not a new task
Load == /\ phase = "load" /\ status = "running"
        /\ visited' = IF LoadsIncludes(sc) THEN {"root"} \cup (IF sc.graph \in {"chain", "diamond", "wide"} THEN {"a", "leaf"} ELSE {}) ELSE {"root"}
        /\ IF MustFail(sc) THEN status' = "failed" /\ phase' = "done" ELSE status' = "running" /\ phase' = "process"
        /\ UNCHANGED <<sc, stdout>>
\* process: any stage may fail (lifecycle, missing price, empty accrual window, ...) - nondeterministic here,
\* the ledger model decides which; what matters is that a failure stops before emitting
Process == /\ phase = "process" /\ status = "running"
           /\ \/ status' = "running" /\ phase' = "render"
              \/ status' = "failed" /\ phase' = "done"
           /\ UNCHANGED <<sc, stdout, visited>>
Render == /\ phase = "render" /\ status = "running"
          /\ \/ phase' = "emit" /\ status' = "running"
             \/ phase' = "done" /\ status' = "failed"
          /\ UNCHANGED <<sc, stdout, visited>>
EmitOut == /\ phase = "emit" /\ status = "running"
           /\ stdout' = "report" /\ status' = "ok" /\ phase' = "done"
           /\ UNCHANGED <<sc, visited>>
Next == Load \/ Process \/ Render \/ EmitOut \/ (phase = "done" /\ UNCHANGED vars)
Spec == Init /\ [][Next]_vars /\ WF_vars(Next)

Terminates == <>(phase = "done")
FailureLeavesStdoutEmpty == status = "failed" => stdout = "empty"
FaultFailsCommand == (phase = "done" /\ MustFail(sc)) => status = "failed"
ExitCodeMatches == phase = "done" => status \in {"ok", "failed"}
EmitScenario == (Emit /\ phase = "load") => PrintT("CASE " \o ToJson([sc |-> sc, mustFail |-> MustFail(sc), report |-> sc.cmd \in ReportCmds]))
=============================================================================
