SPECIFICATION Spec
CONSTANTS
  Base = 18250
  Span = 91
  Lasts <- LastsDef
INVARIANTS PartitionOK AlignOK CoverOK RecursiveAgrees CivilRoundTrip
CHECK_DEADLOCK FALSE
