----------------------------- MODULE Calendar -----------------------------
(* Calendar arithmetic and reporting-period partitions (property C11; used by   *)
(* C02, C10, C20).  Days are integers: days since 1970-01-01.                   *)
(*                                                                              *)
(* Declarative part: IsPartition / AlignSpec, taken from the property text.     *)
(* Operational part: the backward walk of date.NewPartition as a state machine  *)
(* (one action per loop iteration), checked against the declarative part.       *)
EXTENDS Integers, Sequences, FiniteSets

Intervals == {"once", "daily", "weekly", "monthly", "quarterly", "yearly"}

Max2(a, b) == IF a >= b THEN a ELSE b
Min2(a, b) == IF a <= b THEN a ELSE b

\* ---- civil calendar (Hinnant), valid for z >= -719468 -----------------------
Civil(z0) ==
  LET z   == z0 + 719468
      era == z \div 146097
      doe == z - era * 146097
      yoe == (doe - doe \div 1460 + doe \div 36524 - doe \div 146096) \div 365
      y   == yoe + era * 400
      doy == doe - (365 * yoe + yoe \div 4 - yoe \div 100)
      mp  == (5 * doy + 2) \div 153
      d   == doy - (153 * mp + 2) \div 5 + 1
      m   == IF mp < 10 THEN mp + 3 ELSE mp - 9
  IN [y |-> IF m <= 2 THEN y + 1 ELSE y, m |-> m, d |-> d]

DaysFromCivil(y0, m, d) ==
  LET y   == IF m <= 2 THEN y0 - 1 ELSE y0
      era == y \div 400
      yoe == y - era * 400
      mp  == IF m > 2 THEN m - 3 ELSE m + 9
      doy == (153 * mp + 2) \div 5 + d - 1
      doe == yoe * 365 + yoe \div 4 - yoe \div 100 + doy
  IN era * 146097 + doe - 719468

Weekday(z) == (z + 3) % 7            \* 0 = Monday ... 6 = Sunday (1970-01-01 was a Thursday)

\* first day of the month `k` months after (y, m)
MonthStart(y, m, k) ==
  LET t == (y * 12 + (m - 1)) + k
  IN DaysFromCivil(t \div 12, (t % 12) + 1, 1)

UnitStart(z, iv) ==
  LET c == Civil(z) IN
  CASE iv = "once"      -> z
    [] iv = "daily"     -> z
    [] iv = "weekly"    -> z - Weekday(z)
    [] iv = "monthly"   -> MonthStart(c.y, c.m, 0)
    [] iv = "quarterly" -> MonthStart(c.y, ((c.m - 1) \div 3) * 3 + 1, 0)
    [] iv = "yearly"    -> MonthStart(c.y, 1, 0)

UnitEnd(z, iv) ==
  LET c == Civil(z) IN
  CASE iv = "once"      -> z
    [] iv = "daily"     -> z
    [] iv = "weekly"    -> z - Weekday(z) + 6
    [] iv = "monthly"   -> MonthStart(c.y, c.m, 1) - 1
    [] iv = "quarterly" -> MonthStart(c.y, ((c.m - 1) \div 3) * 3 + 1, 3) - 1
    [] iv = "yearly"    -> MonthStart(c.y, 1, 12) - 1

SameUnit(a, b, iv) == UnitStart(a, iv) = UnitStart(b, iv)

\* ---- declarative partition (C11) ---------------------------------------------
\* ps: sequence of [s, e]; window s..e; last <= 0 means "all".
IsPartition(ps, s, e, iv, last) ==
  IF s > e THEN ps = << >>                                       \* an empty window has no periods, whatever the interval
  ELSE IF iv = "once" THEN ps = << [s |-> s, e |-> e] >>
  ELSE
    /\ Len(ps) >= 1
    /\ ps[Len(ps)].e = e                                         \* ends at the window end
    /\ \A i \in 1..Len(ps) :
         /\ ps[i].s <= ps[i].e
         /\ SameUnit(ps[i].s, ps[i].e, iv)                       \* never straddles a boundary
         /\ ps[i].s = Max2(s, UnitStart(ps[i].e, iv))            \* maximal inside the window
         /\ ps[i].e = Min2(e, UnitEnd(ps[i].s, iv))
    /\ \A i \in 1..Len(ps) - 1 :
         /\ ps[i].e + 1 = ps[i+1].s                              \* consecutive, no gap/overlap
         /\ ~SameUnit(ps[i].e, ps[i+1].s, iv)
    /\ IF last > 0 /\ Len(ps) >= last
         THEN Len(ps) = last /\ ps[1].s >= s                    \* exactly the n most recent
         ELSE ps[1].s = s                                        \* covers the window exactly

\* the set of days covered
Covered(ps) == UNION { ps[i].s .. ps[i].e : i \in 1..Len(ps) }

NoColumn == -1000000
\* Every date up to the window end is attributed to the end of the period containing it,
\* dates before the first shown period to the first period, later dates to no column.
AlignSpec(ps, d) ==
  IF Len(ps) = 0 \/ d > ps[Len(ps)].e THEN NoColumn
  ELSE IF d < ps[1].s THEN ps[1].e
  ELSE LET i == CHOOSE k \in 1..Len(ps) : ps[k].s <= d /\ d <= ps[k].e IN ps[i].e

\* the code's sort.Search formulation: first period whose end is not before d
AlignCode(ps, d) ==
  LET idx == { k \in 1..Len(ps) : ps[k].e >= d } IN
  IF idx = {} THEN NoColumn ELSE ps[CHOOSE k \in idx : \A j \in idx : k <= j].e

\* ---- operational partition: date.NewPartition's backward walk ----------------
RECURSIVE Walk(_, _, _, _, _, _)
Walk(end, s, iv, last, counter, acc) ==
  IF end < s \/ (last > 0 /\ counter >= last) THEN acc
  ELSE LET st == Max2(s, UnitStart(end, iv))
       IN Walk(st - 1, s, iv, last, counter + 1, << [s |-> st, e |-> end] >> \o acc)

Partition(s, e, iv, last) ==
  IF iv = "once" THEN (IF s > e THEN << >> ELSE << [s |-> s, e |-> e] >>) ELSE Walk(e, s, iv, last, 0, << >>)

SpanContains(s, e, d) == s <= d /\ d <= e
=============================================================================
