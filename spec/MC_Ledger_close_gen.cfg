SPECIFICATION Spec
CONSTANTS
  MaxLen = 2
  Emit = TRUE
  Family = "close"
INVARIANTS EmitCase
CHECK_DEADLOCK FALSE
