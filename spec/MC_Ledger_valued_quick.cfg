SPECIFICATION Spec
CONSTANTS
  MaxLen = 3
  Emit = FALSE
  Family = "valued"
INVARIANTS AllInv
CHECK_DEADLOCK FALSE
