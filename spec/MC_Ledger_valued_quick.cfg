SPECIFICATION Spec
CONSTANTS
  MaxLen = 3
  Family = "valued"
INVARIANTS AllInv
CHECK_DEADLOCK FALSE
