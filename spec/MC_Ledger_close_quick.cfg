SPECIFICATION Spec
CONSTANTS
  MaxLen = 2
  Emit = FALSE
  Family = "close"
INVARIANTS AllInv
CHECK_DEADLOCK FALSE
