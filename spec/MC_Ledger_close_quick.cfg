SPECIFICATION Spec
CONSTANTS
  MaxLen = 2
  Family = "close"
INVARIANTS AllInv
CHECK_DEADLOCK FALSE
