-------------------------------- MODULE Table --------------------------------
(* Number formatting and table shape of the text/CSV renderers (property C17).  *)
(* An amount is [sg \in {-1,0,1}, ip : Seq(0..9), fp : Seq(0..9)] (integer and  *)
(* fraction digits, arbitrary length: no 32-bit limit).  A rendered cell is a    *)
(* sequence of tokens: 0..9 digits, 10 = ',', 11 = '.', 12 = '-'.               *)
EXTENDS Integers, Sequences, FiniteSets

Comma == 10  Dot == 11  Minus == 12
Zeros(n) == [k \in 1..n |-> 0]
AllZero(s) == \A k \in 1..Len(s) : s[k] = 0
RECURSIVE Strip(_)
Strip(s) == IF Len(s) > 1 /\ s[1] = 0 THEN Strip(Tail(s)) ELSE IF s = << >> THEN <<0>> ELSE s
RECURSIVE StripTrailing(_)
StripTrailing(s) == IF s # << >> /\ s[Len(s)] = 0 THEN StripTrailing(SubSeq(s, 1, Len(s) - 1)) ELSE s
RECURSIVE Inc(_)
Inc(s) == IF s = << >> THEN <<1>>
          ELSE IF s[Len(s)] < 9 THEN [s EXCEPT ![Len(s)] = @ + 1]
          ELSE Inc(SubSeq(s, 1, Len(s) - 1)) \o <<0>>

\* --thousands: divide by 1000 = move the decimal point three places
Div1000(ip, fp) == LET p == <<0, 0, 0>> \o ip  n == Len(p)
                   IN [ip |-> Strip(SubSeq(p, 1, n - 3)), fp |-> SubSeq(p, n - 2, n) \o fp]
\* round half away from zero to d fraction digits (on the magnitude)
Round(ip, fp, d) ==
  LET f == fp \o Zeros(d + 1)
      keep == ip \o SubSeq(f, 1, d)
      k2 == IF f[d + 1] >= 5 THEN Inc(keep) ELSE keep
      n == Len(k2)
  IN [ip |-> Strip(SubSeq(k2, 1, n - d)), fp |-> SubSeq(k2, n - d + 1, n)]
RECURSIVE Group(_)
Group(ip) == IF Len(ip) <= 3 THEN ip
             ELSE Group(SubSeq(ip, 1, Len(ip) - 3)) \o <<Comma>> \o SubSeq(ip, Len(ip) - 2, Len(ip))

\* c = [sg, ip, fp, k (thousands), digits]
Fmt(c) ==
  IF c.sg = 0 THEN << >>                                   \* zero amounts are blank
  ELSE LET a == IF c.k THEN Div1000(Strip(c.ip), c.fp) ELSE [ip |-> Strip(c.ip), fp |-> c.fp]
           r == Round(a.ip, a.fp, c.digits)
           body == Group(r.ip) \o (IF c.digits > 0 THEN <<Dot>> \o r.fp ELSE << >>)
       IN IF c.sg < 0 /\ ~(AllZero(r.ip) /\ AllZero(r.fp)) THEN <<Minus>> \o body ELSE body

\* ---- the clauses of C17 on a rendered cell, independent of Fmt's construction ----
Ungroup(toks) == SelectSeq(toks, LAMBDA t : t # Comma)
\* value of a token sequence as (sg, ip, fp)
Parse(toks) ==
  LET u == Ungroup(toks)
      neg == u # << >> /\ u[1] = Minus
      body == IF neg THEN Tail(u) ELSE u
      dots == {k \in 1..Len(body) : body[k] = Dot}
      dp == IF dots = {} THEN Len(body) + 1 ELSE CHOOSE k \in dots : TRUE
      ip == SubSeq(body, 1, dp - 1)
      fp == SubSeq(body, dp + 1, Len(body))
  IN [sg |-> IF AllZero(ip) /\ AllZero(fp) THEN 0 ELSE IF neg THEN -1 ELSE 1, ip |-> Strip(ip), fp |-> StripTrailing(fp),
      wellformed |-> Cardinality(dots) <= 1 /\ ip # << >> /\ \A k \in 1..Len(ip) : ip[k] \in 0..9]
SameNumber(x, y) == x.sg = y.sg /\ (x.sg = 0 \/ (Strip(x.ip) = Strip(y.ip) /\ StripTrailing(x.fp) = StripTrailing(y.fp)))
\* grouping is by threes from the right, never leading
GroupedRight(toks) ==
  LET u == IF toks # << >> /\ toks[1] = Minus THEN Tail(toks) ELSE toks
      dots == {k \in 1..Len(u) : u[k] = Dot}
      n == IF dots = {} THEN Len(u) ELSE (CHOOSE k \in dots : TRUE) - 1
  IN \A k \in 1..n : (u[k] = Comma) <=> ((n - k + 1) % 4 = 0 /\ k > 1)

CellOK(c) ==
  /\ (c.out = << >>) <=> (c.sg = 0)                               \* blank iff zero
  /\ c.out = Fmt(c)
  /\ c.sg # 0 =>
       LET a == IF c.k THEN Div1000(Strip(c.ip), c.fp) ELSE [ip |-> Strip(c.ip), fp |-> c.fp]
           r == Round(a.ip, a.fp, c.digits)
           p == Parse(c.out)
       IN /\ p.wellformed
          /\ SameNumber(p, [sg |-> IF AllZero(r.ip) /\ AllZero(r.fp) THEN 0 ELSE c.sg, ip |-> r.ip, fp |-> r.fp])
          /\ GroupedRight(c.out)
          /\ (p.sg < 0) <=> (c.out[1] = Minus)

\* the CSV cell carries the exact amount
CsvOK(c) == SameNumber(Parse(c.csv), [sg |-> c.sg, ip |-> Strip(c.ip), fp |-> c.fp]) /\ Parse(c.csv).wellformed

\* every line has the same width and the separators are vertically aligned
Rectangular(lines) ==
  \A a \in 1..Len(lines) : lines[a].w = lines[1].w /\ lines[a].seps = lines[1].seps
=============================================================================
