SPECIFICATION Spec
CONSTANTS
  NewLen = 6
  Design = "inplace"
INVARIANTS Intact NewOnlyByRename NoLitterOnError SuccessMeansNew FailureMeansOld
PROPERTY Completes
CHECK_DEADLOCK FALSE
