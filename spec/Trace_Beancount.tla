-------------------------- MODULE Trace_Beancount --------------------------
(* C16: the beancount text produced by `knut transcode -v V`.                   *)
(* case = Ledger case (exact valued regime, qs = 1) + obs = [exit, entries],     *)
(* entries : Seq([k : "open"|"close"|"trx", z, a, post : Seq([a, sg, mag, v, exact])]) *)
(* mag = |amount| at scale 10^8 as little-endian base-10^4 limbs (any size);     *)
(* v = the amount at scale 10^4 when it fits (exact = TRUE).                     *)
EXTENDS Ledger, BigNat, Json, TLC
Cases == ndJsonDeserialize("cases.ndjson")
VARIABLES i, failed
Ent(c) == c.obs.entries
Uses(e, a) == e.k = "trx" /\ \E n \in 1..Len(e.post) : e.post[n].a = a
Balanced(e) ==
  LET pos == SelectSeq(e.post, LAMBDA p : p.sg > 0)
      neg == SelectSeq(e.post, LAMBDA p : p.sg < 0)
  IN Equal(SumAll([n \in 1..Len(pos) |-> pos[n].mag]), SumAll([n \in 1..Len(neg) |-> neg[n].mag]))
BagOfSeq(sq) == [x \in {sq[n] : n \in 1..Len(sq)} |-> Cardinality({n \in 1..Len(sq) : sq[n] = x})]
\* a transaction as a bag of (account, value) pairs
TrxKey(posts, f(_)) == BagOfSeq([n \in 1..Len(posts) |-> f(posts[n])])
Why(c) ==
  LET es == Ent(c)
      fin == Run(c)
      accts == UNION {{es[n].post[m].a : m \in 1..Len(es[n].post)} : n \in {k \in 1..Len(es) : es[k].k = "trx"}}
      unopened == {a \in accts : ~\E n \in 1..Len(es) : es[n].k = "open" /\ es[n].a = a
                                    /\ \A m \in 1..Len(es) : Uses(es[m], a) => (es[n].z <= es[m].z /\ n < m)}
  IN IF c.exact /\ Failed(fin) THEN (IF c.obs.exit # 0 /\ c.obs.empty THEN "ok" ELSE "model-fails-but-transcode-printed")
     ELSE IF c.obs.exit # 0 THEN (IF c.exact THEN "transcode-failed" ELSE "ok")
     ELSE IF \E n \in 1..Len(es) : es[n].k = "trx" /\ ~Balanced(es[n]) THEN "transaction-does-not-sum-to-zero"
     ELSE IF \E n \in 1..(Len(es) - 1) : es[n].z > es[n + 1].z THEN "not-chronological"
     ELSE IF \E n, m \in 1..Len(es) : es[n].k = "close" /\ n < m /\ Uses(es[m], es[n].a)
                                       /\ ~\E r \in (n + 1)..(m - 1) : es[r].k = "open" /\ es[r].a = es[n].a THEN "account-used-after-close"
     \* the set of transactions = the model's valued transactions (user bookings + daily adjustments), per day
     ELSE IF c.exact /\ \E d \in 1..Len(fin.trace) :
               LET z == fin.trace[d].z
                   want == BagOfSeq([n \in 1..Len(fin.trace[d].valued) |-> TrxKey(fin.trace[d].valued[n], LAMBDA p : <<p.a, p.v>>)])
                   obsT == SelectSeq(es, LAMBDA e : e.k = "trx" /\ e.z = z)
                   got == BagOfSeq([n \in 1..Len(obsT) |-> TrxKey(obsT[n].post, LAMBDA p : <<p.a, p.sg * p.v>>)])
               IN want # got THEN "transactions-differ-from-valued-journal"
     ELSE IF c.exact /\ \E n \in 1..Len(es) : es[n].k = "trx" /\ ~\E d \in 1..Len(fin.trace) : fin.trace[d].z = es[n].z THEN "transaction-on-a-day-without-directives"
     ELSE IF unopened # {} THEN
          (IF \A a \in unopened : a \in DOMAIN c.ty /\ c.ty[a] = "I" /\ \E b \in Accts(c) : IsAL(c.ty, b) /\ ValAcct(c, b) = a
                                  /\ \A m \in 1..Len(es) : Uses(es[m], a) => \E p \in 1..Len(es[m].post) : es[m].post[p].a = a /\ c.obs.adjust[m]
           THEN "valuation-account-never-opened" ELSE "account-used-without-open")
     ELSE "ok"
Init == i = 1 /\ failed = << >>
Next == /\ i <= Len(Cases)
        /\ i' = i + 1
        /\ failed' = LET w == Why(Cases[i]) IN IF w = "ok" THEN failed ELSE Append(failed, [id |-> Cases[i].id, why |-> w])
Spec == Init /\ [][Next]_<<i, failed>>
Report == i <= Len(Cases) \/ PrintT("FAILED " \o ToJson(failed))
=============================================================================
