SPECIFICATION Spec
CONSTANTS
  MaxDecl = 3
  Alg = "bfs"
  Emit = FALSE
INVARIANTS Valid Deterministic
CHECK_DEADLOCK FALSE
