--------------------------- MODULE Trace_Accrual ---------------------------
(* Judges expansions recorded from the real parser -> transaction.Create.      *)
(* case = [id, qs, ty, z, bk, acc, obs : Seq([z, part, of, post]), err]         *)
EXTENDS Accrual, Json, TLC
Cases == ndJsonDeserialize("cases.ndjson")
VARIABLES i, failed
BagOf(sq) == [x \in {sq[n] : n \in 1..Len(sq)} |-> Cardinality({n \in 1..Len(sq) : sq[n] = x})]
Strip(ts) == [n \in 1..Len(ts) |-> [z |-> ts[n].z, part |-> ts[n].part, of |-> ts[n].of, post |-> ts[n].post]]
Why(c) ==
  LET orig == [z |-> c.z, post |-> PostingsOf(c.bk)]
      want == Expand(c.ty, orig, c.acc, c.qs, "spec")
  IN IF c.err THEN "create-failed"
     ELSE IF ~EachBalances(c.obs) THEN "a-generated-transaction-does-not-balance"
     ELSE IF ~ConservesOthers(c.ty, orig, c.obs, c.acc) THEN "totals-not-conserved"
     ELSE IF ~AccrualNetsToZero(orig, c.obs, c.acc) THEN "accrual-account-does-not-net-to-zero"
     ELSE IF ~DatesRight(c.ty, orig, c.obs, c.acc) THEN "dates"
     ELSE IF ~SplitOverExactlyThePeriods(c.ty, orig, c.obs, c.acc) THEN "periods"
     ELSE IF BagOf(Strip(c.obs)) # BagOf(Strip(want)) THEN "differs-from-model-expansion"
     ELSE "ok"
Init == i = 1 /\ failed = << >>
Next == /\ i <= Len(Cases)
        /\ i' = i + 1
        /\ failed' = LET w == Why(Cases[i]) IN IF w = "ok" THEN failed ELSE Append(failed, [id |-> Cases[i].id, why |-> w])
Spec == Init /\ [][Next]_<<i, failed>>
Report == i <= Len(Cases) \/ PrintT("FAILED " \o ToJson(failed))
=============================================================================
