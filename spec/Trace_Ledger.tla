--------------------------- MODULE Trace_Ledger ---------------------------
(* Judges observations of the real knut (check verdicts, balance reports)       *)
(* against Ledger.tla.  One case per line of cases.ndjson.                       *)
EXTENDS Ledger, Json, TLC
Cases == ndJsonDeserialize("cases.ndjson")
VARIABLES i, failed

\* ---- kind "check": accept/reject + the diagnostic names the offending directive
JudgeCheck(c) ==
  LET lc == Lifecycle(c)
      ok == lc.err.k = "none"
  IN /\ ok = c.obs.accept
     /\ RefAccepted(c) = c.obs.accept
     /\ ~ok => /\ c.obs.errz = lc.err.z
               /\ lc.err.a \in SetOf(c.obs.erraccts)

\* ---- kind "balance"
Valued(c) == c.V # ""
ObsRows(c, secs) == {n \in 1..Len(c.obs.rows) : c.obs.rows[n].sec \in secs}
\* In a valued report commodities are aggregated per row, except for the accounts matched by
\* --show-commodities; an aggregated row carries the valuation commodity's name (or nothing).
Shown(c, a) == a \in SetOf(c.flags.show)
Aggregated(c, r) == Valued(c) /\ (r.sec \notin {"AL", "EIE"} \/ ~Shown(c, r.a))
ExpectedRowCell(c, rep, r, k) ==
  CASE r.sec \in {"AL", "EIE"} ->
         IF Aggregated(c, r) THEN ValuedCell(c, rep, r.a, k)
         ELSE IF r.c = "" THEN 0 ELSE Cell(c, rep, r.a, r.c, k)
    [] r.sec = "TotalAL"  -> IF r.c = "" \/ Aggregated(c, r) THEN SumOver(SetToSeq(Comms(c)), LAMBDA cc : TotalRaw(c, rep, TRUE, cc, k))
                             ELSE TotalRaw(c, rep, TRUE, r.c, k)
    [] r.sec = "TotalEIE" -> IF r.c = "" \/ Aggregated(c, r) THEN -SumOver(SetToSeq(Comms(c)), LAMBDA cc : TotalRaw(c, rep, FALSE, cc, k))
                             ELSE -TotalRaw(c, rep, FALSE, r.c, k)
    [] r.sec = "Delta"    -> IF r.c = "" \/ Aggregated(c, r) THEN SumOver(SetToSeq(Comms(c)), LAMBDA cc : DeltaCell(c, rep, cc, k))
                             ELSE DeltaCell(c, rep, r.c, k)
\* unvalued reports multiply by the quantity scale only; valued ones are at scale S
Complete(c) == c.flags.acctAll /\ c.flags.commAll /\ \A n \in 1..Len(c.flags.map) : c.flags.map[n].level # 0

WhyBalance(c) ==
  LET fin == Run(c)
      dirs == Expanded(c)
      ps == Periods(c, dirs)
      np == Len(ps)
  IN IF Failed(fin) THEN (IF c.obs.exit # 0 /\ c.obs.empty THEN "ok" ELSE "model-fails-but-knut-printed-a-report")
     ELSE IF c.obs.exit # 0 THEN "knut-failed-but-model-succeeds"
     ELSE IF c.obs.bad THEN "unreadable-output"
     ELSE IF c.obs.cols # [k \in 1..np |-> ps[k].e] THEN "columns"
     \* rows: exactly the inserted accounts and their ancestors
     ELSE IF {c.obs.rows[n].a : n \in ObsRows(c, {"AL", "EIE"})} # RowSet(c, fin.rep) THEN "row-set"
     ELSE IF ~(\A n \in ObsRows(c, {"AL"}) : IsALRow(c, c.obs.rows[n].a)) THEN "row-section"
     ELSE IF ~(\A n \in ObsRows(c, {"EIE"}) : ~IsALRow(c, c.obs.rows[n].a)) THEN "row-section"
     \* every shown cell equals the model's
     ELSE IF ~(\A n \in 1..Len(c.obs.rows) : \A k \in 1..np :
                 c.obs.rows[n].x[k] = ExpectedRowCell(c, fin.rep, c.obs.rows[n], k)) THEN "cell"
     \* nothing non-zero is missing
     ELSE IF ~(\A a \in Accts(c) : \A cc \in Comms(c) : \A k \in 1..np :
                 Cell(c, fin.rep, a, cc, k) # 0 =>
                    \E n \in ObsRows(c, {"AL", "EIE"}) :
                       c.obs.rows[n].a = a /\ (c.obs.rows[n].c = cc \/ Aggregated(c, c.obs.rows[n]))) THEN "missing-row"
     \* C01: complete reports net to zero, in the model and in the observation
     ELSE IF Complete(c) /\ ~(\A cc \in Comms(c) : \A k \in 1..np : DeltaCell(c, fin.rep, cc, k) = 0) THEN "model-delta-nonzero"
     ELSE IF Complete(c) /\ ~(\A n \in ObsRows(c, {"Delta"}) : \A k \in 1..np : c.obs.rows[n].x[k] = 0) THEN "delta-nonzero"
     \* hidden amounts appear only in Delta
     ELSE IF ~Complete(c) /\ c.flags.acctAll /\ c.flags.commAll
             /\ ~(\A cc \in Comms(c) : \A k \in 1..np : DeltaCell(c, fin.rep, cc, k) = -HiddenRaw(c, fin.rep, cc, k)) THEN "hidden-not-in-delta"
     \* C02: the declarative sum (unvalued, no closing)
     ELSE IF ~Valued(c) /\ ~c.flags.close
             /\ ~(\A n \in ObsRows(c, {"AL", "EIE"}) : \A k \in 1..np :
                    c.obs.rows[n].c # "" => c.obs.rows[n].x[k] = RefCellNoClose(c, c.obs.rows[n].a, c.obs.rows[n].c, k)) THEN "declarative-sum"
     ELSE "ok"

\* every report command proceeds exactly when check accepts (obs.reports: the verdicts of balance with its default
\* window, balance cut off before the journal's last day, print, register-free commands that run the same checker)
WhyCheck(c) == IF ~JudgeCheck(c) THEN "verdict-or-diagnostic"
               ELSE IF \E n \in 1..Len(c.obs.reports) : c.obs.reports[n] # c.obs.accept THEN "report-command-verdict-differs-from-check"
               ELSE "ok"

\* ---- kind "delta": amounts outside the integer regime of the model (fractional quantities,
\* arbitrary prices, 8-decimal truncation): only the statement of C01 itself is judged, on the
\* printed digits: every cell of every Delta row is zero.  obs.delta : Seq(Seq(Seq(digit)))
WhyDelta(c) ==
  IF c.obs.exit # 0 THEN "ok"                       \* e.g. a missing price; not this clause's subject
  ELSE IF c.obs.bad THEN "unreadable-output"
  ELSE IF Len(c.obs.delta) = 0 THEN "no-delta-row"
  ELSE IF \E r \in 1..Len(c.obs.delta) : \E k \in 1..Len(c.obs.delta[r]) :
            \E d \in 1..Len(c.obs.delta[r][k]) : c.obs.delta[r][k][d] # 0 THEN "delta-nonzero"
  ELSE "ok"

\* ---- kind "stages": StageDay events recorded by the verif hook in Journal.Process of the real
\* run (after each processor finished a day, before the day is handed on).  Amounts are canonical
\* strings (qa / va = absolute value, qsg / vsg = sign), so any magnitude can be compared.
\* ev = [stage, of, d, trx : Seq(Seq(posting))]
PairsOK(t) == /\ Len(t) % 2 = 0
              /\ \A n \in 1..(Len(t) \div 2) :
                    LET x == t[2 * n - 1]  y == t[2 * n] IN
                    /\ x.c = y.c /\ x.a = y.o /\ x.o = y.a
                    /\ x.qa = y.qa /\ x.qsg = -y.qsg
                    /\ x.va = y.va /\ x.vsg = -y.vsg
Bookings(t) == [n \in 1..Len(t) |-> [a |-> t[n].a, o |-> t[n].o, c |-> t[n].c, qa |-> t[n].qa, qsg |-> t[n].qsg]]
IsPrefixSeq(p, q) == Len(p) <= Len(q) /\ \A n \in 1..Len(p) : p[n] = q[n]
WhyStages(c) ==
  LET ev == c.events IN
  IF \E n \in 1..Len(ev) : \E m \in 1..Len(ev[n].trx) : ~PairsOK(ev[n].trx[m]) THEN "a-transaction-is-not-exact-negative-pairs-after-some-stage"
  \* a later stage only appends transactions to a day (or clears the day: window filter); it never alters a booking
  ELSE IF \E n, k \in 1..Len(ev) : ev[n].d = ev[k].d /\ ev[k].stage = ev[n].stage + 1 /\ ev[k].trx # << >> /\ ~ev[k].sorted
            /\ ~IsPrefixSeq([m \in 1..Len(ev[n].trx) |-> Bookings(ev[n].trx[m])], [m \in 1..Len(ev[k].trx) |-> Bookings(ev[k].trx[m])])
       THEN "a-stage-dropped-or-altered-a-booking"
  ELSE "ok"

\* ---- kind "stagesExact": the same hook events in the exact valued regime, compared with what the
\* model's stage operators produce for that day: after the valuation stage (c.sValuate) the day's
\* transactions are the model's valued transactions (user bookings at the booking-day price plus the
\* value adjustments); after the last stage before the query (c.sFinal) they are the model's final ones
\* (window filter and closing entries applied).  ev = [stage, z, trx : Seq(Seq([a, c, q, v]))]
BagOf(sq) == [x \in {sq[n] : n \in 1..Len(sq)} |-> Cardinality({n \in 1..Len(sq) : sq[n] = x})]
TrxBag(trxs, f(_)) == BagOf([m \in 1..Len(trxs) |-> BagOf([n \in 1..Len(trxs[m]) |-> f(trxs[m][n])])])
Proj(p) == [a |-> p.a, c |-> p.c, q |-> p.q, v |-> p.v]
WhyStagesExact(c) ==
  LET fin == Run(c)
      day(z) == CHOOSE d \in 1..Len(fin.trace) : fin.trace[d].z = z
  IN IF Failed(fin) THEN "ok"
     ELSE IF \E n \in 1..Len(c.events) : ~\E d \in 1..Len(fin.trace) : fin.trace[d].z = c.events[n].z THEN "stage-processed-a-day-the-model-does-not-have"
     ELSE IF \E n \in 1..Len(c.events) : c.events[n].stage = c.sValuate
               /\ TrxBag(c.events[n].trx, Proj) # TrxBag(fin.trace[day(c.events[n].z)].valued, Proj) THEN "valuation-stage-output-differs-from-model"
     ELSE IF \E n \in 1..Len(c.events) : c.events[n].stage = c.sFinal
               /\ TrxBag(c.events[n].trx, Proj) # TrxBag(fin.trace[day(c.events[n].z)].final, Proj) THEN "final-stage-output-differs-from-model"
     ELSE "ok"

Why(c) ==
  CASE c.kind = "check" -> WhyCheck(c)
    [] c.kind = "stagesExact" -> WhyStagesExact(c)
    [] c.kind = "stages" -> WhyStages(c)
    [] c.kind = "delta" -> WhyDelta(c)
    [] c.kind = "balance" -> WhyBalance(c)

Init == i = 1 /\ failed = << >>
Next == /\ i <= Len(Cases)
        /\ i' = i + 1
        /\ failed' = LET w == Why(Cases[i]) IN IF w = "ok" THEN failed ELSE Append(failed, [id |-> Cases[i].id, why |-> w])
Spec == Init /\ [][Next]_<<i, failed>>
Report == i <= Len(Cases) \/ PrintT("FAILED " \o ToJson(failed))
=============================================================================
