#!/bin/bash
# usage: ./dbg.sh replay/C01/quick-1-4   -> prints the model's view of the case
d=$(mktemp -d /verif/.work/dbg.XXXX); cp spec/*.tla spec/*.cfg $d/
python3 -c "import json,sys; print(json.dumps(json.load(open('$1/case.json'))))" > $d/cases.ndjson
( cd $d && timeout 120 tlc -workers 1 -metadir $d/meta -config Debug_Ledger.cfg Debug_Ledger.tla 2>&1 | grep -v "^TLC2\|^Running\|^Parsing\|^Semantic\|^Starting\|^Computing\|^Linting\|Warning\|multiply-defined\|definition at\|^line " )
rm -rf $d
