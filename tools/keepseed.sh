#!/bin/bash
# usage: tools/keepseed.sh <worktree> <name> "<caught-by text>"
set -e
wt=$1; name=$2; caught=$3
d=/verif/seeded/$name; mkdir -p $d
cp $wt/SEED/patch.diff $d/; rm -rf $d/demo; cp -r $wt/SEED/demo $d/demo
python3 - "$wt/SEED/meta.json" "$d/meta.json" "$caught" <<'PY'
import json,sys
m=json.load(open(sys.argv[1]))
m['confirmed']="applied in scratch worktree: go build + existing tests pass with the patch (tools/seedtest.sh); sub-agent's demo reported failing with / passing without"
m['checks_run']=sys.argv[3]
json.dump(m,open(sys.argv[2],'w'),indent=1)
PY
echo kept $name
