#!/bin/bash
# usage: tools/seedtest.sh <worktree> <check-ids...>
# 1. verifies in the scratch worktree that the patch builds and passes the existing tests
# 2. runs the given checks (quick) against the patched worktree (VERIF_REPO), /repo is not touched
#    (APPLY=1: apply the patch to /repo instead, run, revert - only when no other check is running)
set -u
export GOFLAGS=-mod=mod GOPROXY=off GOSUMDB=off GOTOOLCHAIN=local
wt=$1; shift
patch=$wt/SEED/patch.diff
[ -f "$patch" ] || { echo "no patch"; exit 2; }
( cd $wt && git checkout -q -- . && git apply $patch && go build ./... && go test -vet=off -count=1 $(go list ./... | grep -v /SEED) 2>&1 | grep -v "^ok\|no test files" ; echo "tests-with-patch rc=${PIPESTATUS[0]}" )
if [ "${APPLY:-0}" = 1 ]; then
  ( cd $wt && git checkout -q -- . )
  cd /repo && git status --short | grep -v '^??' && { echo "/repo dirty"; exit 2; }
  git -C /repo apply $patch 2>/dev/null || git -C /repo apply --3way $patch || { echo "patch does not apply to /repo"; exit 2; }
  git -C /repo reset -q
else
  # bring the worktree to /repo's HEAD plus the patch
  ( cd $wt && git checkout -q -- . && git checkout -q --detach $(git -C /repo rev-parse HEAD) && { git apply $patch 2>/dev/null || git apply --3way $patch; } ) || { echo "patch does not apply to HEAD"; exit 2; }
  export VERIF_REPO=$wt
fi
for id in "$@"; do
  ( cd /verif && ./check $id ${TIER:-quick} 2>&1 | cut -c1-220 | grep -E "^VIOLATION|^OK|^KNOWN|INFRA|inconclusive" | head -6; echo "check $id rc=${PIPESTATUS[0]}" )
done
if [ "${APPLY:-0}" = 1 ]; then
  git -C /repo checkout -q -- .
  git -C /repo status --short | grep -v '^??'
else
  ( cd $wt && git reset -q && git checkout -q -- . )
fi
