#!/bin/bash
# usage: tools/reseed.sh [seed-id ...]   (default: all of seeded/)
# Re-tests archived seeded changes against the current checks: for each seed a scratch worktree of /repo's HEAD
# is created under /tmp/wt, the patch applied there, the property's own check run against it (VERIF_REPO), the
# worktree removed.  Writes one line per seed to seeded/MATRIX.txt: <seed> <check> caught|MISSED|noapply
set -u
export GOFLAGS=-mod=mod GOPROXY=off GOSUMDB=off GOTOOLCHAIN=local
cd /verif
ids=("$@"); [ ${#ids[@]} -eq 0 ] && ids=($(ls seeded | grep -E '^C[0-9]+-'))
one() {
  id=$1; prop=${id%%-*}; wt=/tmp/wt/re-$id
  git -C /repo worktree remove --force $wt >/dev/null 2>&1
  git -C /repo worktree add -q --detach $wt HEAD || { echo "$id $prop noworktree"; return; }
  p=seeded/$id/patch.diff
  if ! ( cd $wt && { git apply $OLDPWD/$p 2>/dev/null || git apply --3way $OLDPWD/$p 2>/dev/null; } ); then
    echo "$id $prop noapply"; git -C /repo worktree remove --force $wt; return
  fi
  ( cd $wt && go build ./... ) >/dev/null 2>&1 || { echo "$id $prop nobuild"; git -C /repo worktree remove --force $wt; return; }
  out=$(VERIF_REPO=$wt ./check $prop quick 2>&1 | grep -E "^VIOLATION|^OK" | head -1)
  case "$out" in VIOLATION*) r=caught;; OK*) r=MISSED;; *) r="inconclusive";; esac
  echo "$id $prop $r"
  git -C /repo worktree remove --force $wt
}
export -f one
printf "%s\n" "${ids[@]}" | xargs -P ${PAR:-3} -I{} bash -c 'one {}' | tee /tmp/wt/matrix.$$ 
touch seeded/MATRIX.txt
awk 'NR==FNR{new[$1]=$0; next} !($1 in new){print}' /tmp/wt/matrix.$$ seeded/MATRIX.txt > /tmp/wt/matrix.old.$$
cat /tmp/wt/matrix.old.$$ /tmp/wt/matrix.$$ | sort > seeded/MATRIX.txt; rm -f /tmp/wt/matrix.$$ /tmp/wt/matrix.old.$$
grep -c caught seeded/MATRIX.txt; grep -v caught seeded/MATRIX.txt
